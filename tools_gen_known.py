#!/usr/bin/env python3
"""Regenerates known_findings.json from the table below (maintained by hand)."""
import json, os
F = []
def fixed(id, prop, cls, sig, commit, what):
    F.append({"id": id, "property": prop, "class": cls, "signature": sig, "status": "fixed", "commit": commit,
              "description": what, "record": "fixed: property=%s %s %s" % (prop, commit, what)})
def open_(id, prop, cls, sig, what, why_not_fixed):
    F.append({"id": id, "property": prop, "class": cls, "signature": sig, "status": "open",
              "description": what, "why_not_fixed": why_not_fixed})

fixed("F01", "C06", "finished-state-overwritten", {"overwrite": "DONE->READY", "via": "dependencychanged"}, "9903146",
      "a token release notified a running/finished job and dependencychanged() set it back to READY (wait() returned READY, experiment.wait() returned early)")
fixed("F02", "C06", "hang-at-quiescence", {"unfinished_sign": "neg"}, "d3c42ac",
      "re-submitting a failed job drove experiment.unfinishedJobs to -1: leaving the experiment hung or returned while the re-submitted job still ran")
fixed("F03", "C06", "hang-at-quiescence", {"job_states": ["DONE", "WAITING"], "unfinished_sign": "pos"}, "15760de",
      "a release notification arriving while an aborted start was still releasing the job lock was overwritten by WAITING: the job slept forever")
fixed("F04", "C09", "job-starved", {}, "7c954b6",
      "two schedulers running the same job share one token file; the second release found it gone and returned without notifying waiting jobs")
fixed("F05", "C06", "future-nonfinal", {"result": "EXC:JSONDecodeError"}, "dfccb82",
      "pid file read between its creation and its write (second scheduler, or restart after a crash at that point) raised JSONDecodeError out of aio_submit (also the C11 empty-pid-file crash point)")
fixed("F06", "C06", "finished-state-overwritten", {"overwrite": "ERROR->DONE", "via": "aio_submit"}, "d62d9a0",
      "an adopted process has no return code: the job was set to ERROR and only then to DONE from its marker")
fixed("F07", "C09", "job-starved", {}, "1bfaa0a",
      "a token file notified before its content was written raised ValueError in the watchdog handler, which kills the observer: no release is ever seen again by that process")
fixed("F08", "C06", "future-nonfinal", {"result": "EXC:FileNotFoundError"}, "d17fefc",
      "TokenFile.delete() raced between the job-watcher thread and the scheduler's release: FileNotFoundError killed the job coroutine (job RUNNING forever)")
fixed("F09", "C05", "duplicate-submit-registered", {"first_state": "READY"}, "8e67c54",
      "after a failed job was re-submitted the registry still pointed to the failed one, so a third identical submit was scheduled again next to the pending one")
fixed("F10", "C06", "finished-state-overwritten", {"overwrite": "DONE->RUNNING", "via": "aio_submit"}, "1011d3c",
      "a job found done at submission adopted a still-running duplicate process and went DONE -> RUNNING -> DONE")
fixed("F11", "C06", "future-nonfinal", {"result": "EXC:FileNotFoundError"}, "ad20afe",
      "pid file removed by the ending job between is_file() and read_text() in aio_process: the submission raised")
fixed("F12", "C09", "idle-token-below-capacity", {"kind": "file"}, "56e5e54",
      "a stale token file deleted by its watcher thread before the directory watch existed stayed counted as taken (and a job requesting the token waited forever)")
fixed("F13", "C09", "idle-token-below-capacity", {"kind": "file"}, "f024c9e",
      "on_deleted looked the name up in the cache without the lock while _update() was rebuilding it: the deletion event was dropped")
fixed("F14", "C09", "token-file-left", {}, "960ab3e",
      "a scheduler killed between creating and writing a token file left an empty file that made every later CounterToken on the directory raise ValueError")
fixed("F15", "C06", "future-nonfinal", {"result": "EXC:FileNotFoundError"}, "6ba803f",
      "_update() listed a token file that a watcher thread deleted before it was opened: acquire/release raised FileNotFoundError")

fixed("F16", "C16", "protected-job-unindexed", {"when": "killed"}, "0c8dc71",
      "jobs.bak was dropped on leaving the block before the scheduler thread had linked the submitted jobs: a finished job of the previous run, submitted again, was in no index (and reported by orphans) until linked, for good if the process died while waiting")
fixed("F17", "C19", "filter-raises", {"exc": "TypeError"}, "ac99de5",
      "filter operators 'in' (never true), 'not in' (always true: a negated-membership clean deleted everything) and '~' (TypeError) compared against parser objects")
fixed("F18", "C19", "filter-raises", {"exc": "FileNotFoundError"}, "bc523bd",
      "jobs list/clean with a tag filter or --tags failed on a job folder without params.json (lock-only folder of a job with pre/init tasks, or folder not yet prepared)")
fixed("F19", "C19", "other-experiment-job-removed", {}, "9705f2f",
      "jobs clean --experiment X --perform selected jobs by task name: finished jobs of other experiments with the same task were removed")
fixed("F20", "C19", "running-job-removed", {"markers": ["failed", "pid"]}, "38a0a5e",
      "a relaunched job kept its old .failed marker until its process had the job lock: jobs clean --perform deleted the directory of a running job")
fixed("F21", "C19", "indexed-job-removed", {"experiment_running": True}, "936768f",
      "orphans counted an index link only if the job folder existed: a job starting while the command ran was removed by orphans --clean")

fixed("F22", "C10", "pid-file-left", {}, "cce67c8",
      "remove_signal_handlers() ignored remove_cleanup and always unregistered the exit-time cleanup: a job that ended successfully kept its pid file")
fixed("F23", "C01", "history-dependent", {"cyclic": True}, "aa0b22a",
      "HashComputer.compute set 'has_loop' instead of 'has_loops': identifiers computed inside a cycle were cached as context free, so for sealed cyclic configurations a node's identifier depended on the order of earlier identifier requests")
fixed("F24", "C19", "cli-exception", {"exc": "JSONDecodeError"}, "920bb44",
      "scheduler killed while prepare() was writing params.json left a truncated file: every job command with tags/filter stopped with JSONDecodeError")
fixed("F25", "C08", "capacity-exceeded-running", {"what": "running"}, "9a2f4c9",
      "token files were named after the job only: with several schedulers running the same job under one token directory a late release by one scheduler deleted the file of the current holder, the directory showed free capacity and another job started (3 held of 2)")
fixed("F26", "C06", "finished-state-overwritten", {"overwrite": "ERROR->DONE", "via": "aio_submit"}, "6eed4a7",
      "a job done from an earlier run, submitted after one of its dependencies failed in the current run, was set to ERROR (cancelled by dependency) and only then to DONE")
fixed("F27", "C09", "token-file-left", {}, "336c7f9",
      "two token files of one job (a job holding two tokens) are watched by two threads of a foreign scheduler; one thread's unlock of the job lock file drops the other's lock (POSIX per-process record locks), the job finishes and removes its pid file between the other thread's is_file() and read_text(): FileNotFoundError killed the watcher thread, the token file of the finished job stayed for ever and a waiting job was starved (1 of 2 400 quick runs under VERIF_SEED=2)")
open_("K01", "C20", "repaired-job-relaunched", {"kind": "dep-root"},
      "after `deprecated list --fix [--cleanup]`, resubmitting a task whose own class was deprecated under another class name launches it again: the linked/moved folder keeps the marker, script and pid files named after the former class (olddleaf.done), the new job looks for <new name>.done",
      "repair is not small: fix_deprecated would have to rename or alias every per-job file (script, markers, pid, lock, logs) of the former task name, in link mode without touching the old folder; recorded instead")

open_("K02", "C19", "relaunched-job-removed", {"cmd": "jobs-clean"},
      "`jobs clean --perform` reads a job's state, and removes its folder a few statements later without holding the job lock: a failed job relaunched by a scheduler in between (its markers are removed at launch) is deleted while it runs",
      "closing the window needs the cleaning command to take the job's run lock (whose path depends on the main identifier, known only from the job script or the loaded configuration) and the scheduler to honour it: a design change, not a small patch; a job that was already running when the command started is still reported")

open_("K03", "C19", "indexed-job-removed", {"experiment_running": True, "indexed_when_command_started": False},
      "`orphans --clean` reads the experiment indexes, then lists the job folders: a job that a running experiment links after the indexes were read (e.g. an old, so far unindexed job submitted again) is taken for an orphan and deleted",
      "inherent check-then-act race of a lock-free cleaning command; closing it needs the command to exclude running experiments (experiment locks) or the scheduler to re-validate: not a small patch. Removal of a job that was already indexed when the command started is still reported")

for what in ("running", "files"):
    open_("K04-" + what, "C08", "capacity-exceeded-" + what, {"what": what, "job_lock_dropped_by_own_watcher": True},
          "several schedulers run the same job under one file token: a scheduler's TokenFile.watch thread (watching the other scheduler's holding of that job) locks and unlocks the job's lock file inside the scheduler process; POSIX record locks are per process, so this drops the job lock the scheduler holds while starting the job; a foreign watcher then gets the lock, finds no pid file yet, deletes the starting job's token file, and the freed capacity is given to another job (thorough tier, 3 of 15 363 runs)",
          "not small: the watcher threads and the scheduler must not use the same per-process record lock (needs open-file-description locks or an in-process registry of held job locks)")

open_("K05", "C05", "concurrent-submit-new-output", {"none_returned": True, "distinct_outputs": 1},
      "two user threads of one process submit an identical configuration: ConfigInformation.submit assigns its _taskoutput only after experiment.submit() has registered the job, so a duplicate submitted from the other thread in between gets None instead of the first submission's output (no second job is created, the body runs once); reproduced against /repo by a stand-alone two-thread program (first submitter delayed right after the registration)",
      "the repair needs the registration and the assignment of the output to be atomic with respect to other submitting threads (a lock in core/objects.py, or building the output before the registration, which changes what a duplicate submission marks): a lock would add scheduling points to every submission and all recorded schedules, found in the last half hour of the work; left to the maintainers")

here = os.path.dirname(os.path.abspath(__file__))
with open(os.path.join(here, "known_findings.json"), "w") as f:
    json.dump(F, f, indent=1)
print(len(F), "entries")
