from experimaestro import Task, Param
class Say(Task):
    x: Param[int]
    def execute(self):
        pass
