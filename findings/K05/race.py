import threading, time, sys, tempfile
from pathlib import Path
sys.path.insert(0, str(Path(__file__).parent))
from experimaestro import experiment
from experimaestro.scheduler import base
from racetask import Say

orig = base.experiment.submit
def slow_submit(self, job):
    r = orig(self, job)
    if threading.current_thread().name == "T1":
        time.sleep(0.6)      # the first submitter is pre-empted right after the registration
    return r
base.experiment.submit = slow_submit
res = {}
def sub(name):
    res[name] = Say(x=1).submit()
if __name__ == "__main__":
    with tempfile.TemporaryDirectory() as d:
        with experiment(Path(d), "race", port=-1) as xp:
            xp.setenv("PYTHONPATH", str(Path(__file__).parent))
            t1 = threading.Thread(target=sub, args=("T1",), name="T1"); t1.start()
            time.sleep(0.2)
            t2 = threading.Thread(target=sub, args=("T2",), name="T2"); t2.start()
            t1.join(); t2.join()
            print("T1 ->", type(res["T1"]).__name__, " T2 ->", type(res["T2"]).__name__, " same:", res["T1"] is res["T2"], flush=True)
            ok = res["T1"] is res["T2"]
    sys.exit(0 if ok else 1)
