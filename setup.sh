#!/bin/bash
# Offline setup: nothing is built; verify that the interpreter sees the repository's sources.
set -e
cd "$(dirname "$0")"
mkdir -p evidence replays
/venv/bin/python -W ignore -c "
import experimaestro, os, sys
p = os.path.realpath(os.path.dirname(experimaestro.__file__))
assert p == os.path.realpath('/repo/src/experimaestro'), p
print('experimaestro imported from', p)
"
