#!/bin/bash
# Maintenance tool: sensitivity of the checks to the defects they found.  For each "fixed" entry of
# known_findings.json the fix commit is reverted in a scratch worktree of /repo (nothing in /repo changes)
# and the property's quick check is run against that worktree (PYTHONPATH); it must report a violation.
cd /verif
python3 - <<'PY' > /tmp/fixlist.txt
import json
for e in json.load(open('/verif/known_findings.json')):
    if e["status"] == "fixed":
        print(e["id"], e["property"], e["commit"])
PY
while read id prop commit; do
  wt=/tmp/fixrevert_$id
  git -C /repo worktree add -q --detach $wt HEAD || continue
  if (cd $wt && git show $commit | git apply -R 2>/dev/null); then
    out=$(PYTHONPATH=$wt/src ./check run $prop --tier quick --no-evidence 2>&1); rc=$?
    echo "$id $prop $commit reverted: exit=$rc $(echo "$out" | grep -E 'class=' | head -2 | tr '\n' ' ' | cut -c1-200)"
  else
    echo "$id $prop $commit: revert does not apply on top of later fixes (skipped)"
  fi
  git -C /repo worktree remove --force $wt
done < /tmp/fixlist.txt
