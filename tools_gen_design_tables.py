#!/usr/bin/env python3
"""Regenerates the seeded-defect table of DESIGN.md (section 11) from /verif/seeded/*/meta.json."""
import glob, json, os, re
here = os.path.dirname(os.path.abspath(__file__))
rows = []
for d in sorted(glob.glob(os.path.join(here, "seeded", "S*"))):
    m = json.load(open(os.path.join(d, "meta.json")))
    ev = ""
    p = os.path.join(d, "eval.log")
    if os.path.exists(p):
        t = open(p).read()
        ev = "exit=1" if "exit=1" in t else ("exit=0 (MISSED)" if "exit=0" in t else "?")
    rows.append("| %s | %s | %s | %s | %s | %s | %s |" % (
        m["id"], m["breaks_property"], ", ".join(f.replace("src/experimaestro/", "") for f in m["files_changed"]),
        m["needs_to_manifest"].replace("|", "/"), m["detected_by"], ev, (m.get("detection_notes") or "first version of the check").replace("|", "/")))
table = "| id | breaks | file | needs to manifest | detected by (oracle clause) | quick check on /repo+patch | how it was reached |\n|---|---|---|---|---|---|---|\n" + "\n".join(rows)
s = open(os.path.join(here, "DESIGN.md")).read()
a, b = "<!-- SEEDED-TABLE-BEGIN -->", "<!-- SEEDED-TABLE-END -->"
if a in s:
    s = s[:s.index(a) + len(a)] + "\n" + table + "\n" + s[s.index(b):]
else:
    raise SystemExit("markers missing")
open(os.path.join(here, "DESIGN.md"), "w").write(s)
print(len(rows), "rows")
