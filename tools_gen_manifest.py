#!/usr/bin/env python3
"""Regenerates MANIFEST.json (kept in sync with what is actually built)."""
import json, os
here = os.path.dirname(os.path.abspath(__file__))

S = "deterministic simulation with fault injection: real scheduler/runner code on baton-passing threads under a seeded kernel with a simulated OS; seeded search over schedules and fault sequences; invariants per step + oracles over the recorded history; shrunk replay files"
CHECKS = {
 "C04": ("S", "no simulated launch (Popen) of a job while an upstream named by the workload lacks its success marker; upstream embedded in all 8 documented ways plus a pre-task attached to another upstream's output wrapper; 1-2 schedulers; interleavings of exits, helper threads, loop inbox, fs events chosen by the kernel PRNG"),
 "C05": ("S", "(also from a second user thread of the same process submitting concurrently: one accepted job, one output object; known finding K05) duplicate submissions at any plan position return the first output and register nothing; no launch by an experiment entered after the marker; body intervals per identifier never overlap and no body starts after a successfully completed one (nor with the marker present); 1-3 concurrent schedulers with line-level pre-emption"),
 "C06": ("S", "finished states absorbing (every assignment to Job.state monitored), wait() value final and truthful, no caller parked at quiescence (exact deadlock detection), experiment wait never early, unfinishedJobs == 0; DAGs with 0-2 tokens, failures, re-submission (after wait() or as soon as the caller sees a final state), and histories run / jobs clean (real CLI) / run again with attempt-dependent outcomes"),
 "C07": ("S", "reference model of failure propagation over the workload DAG vs. observed launches, final states and FailedExperiment on exit; failures by exit code, exception, SIGKILL/SIGTERM/SIGINT of the job; two-run histories where the first run is killed and the second adopts running processes (which may then be killed); at quiescence no job with an ancestor that ended in error may still be non-final"),
 "C08": ("S", "after every kernel step: sum of requests of running bodies <= total and sum of counts in token files <= total, per token; 1-3 scheduler processes on one token directory, line-level pre-emption inside acquire/release/_update; sub-profile with disjoint jobs of 2-3 schedulers on one small token; slow threads/processes (stall faults, directed at a process that has just lost a record lock to another of its threads) and late wake-ups of foreign-process waits"),
 "C09": ("S", "at quiescence after faults stopped: no token file left, idle tokens (processes lingering in the experiment, or an auditor process) never below capacity, no waiting job starved; scheduler SIGKILL/SIGTERM while tokens are held combined with job kills, pid reuse, unspecified directory listing order, torn token files, observer death as consequence"),
}
NA = {
 "C02": "identifier invariance under signature-neutral edits is a pure function of two configuration graphs: no schedule, clock, fault or interleaving can change either side (DESIGN section 5)",
 "C03": "collision-freeness of the byte encoding is injectivity of a pure function; nothing to schedule or fault",
 "C12": "save/load round trip is a deterministic function of the graph; no concurrency, retry or crash semantics in the property",
 "C13": "object construction / post-init / pre- and init-task execution counts are a pure single-threaded function of the graph",
 "C15": "type validation and fail-fast submit are pure functions of (type expression, value) / graph, rejected before the scheduler is involved",
 "C17": "generated paths are a pure function of the graph and the job directory",
 "C18": "launcher matching, parsing and operand non-mutation are pure sequential functions of request and host specification",
}
PENDING = {
 "C01": "check under construction (engine H: identifier under operation histories and interpreters); will be claimed once built",
 "C10": "check under construction (engine R: real job process with enumerated crash points); will be claimed once built",
 "C11": "check under construction (engine S crash/restart profile); will be claimed once built",
 "C14": "check under construction (engine S mutate-after-submit profile); will be claimed once built",
 "C16": "check under construction (engine S experiment index histories); will be claimed once built",
 "C19": "check under construction (engine S CLI process profile); will be claimed once built",
 "C20": "check under construction (engine S fix_deprecated crash enumeration); will be claimed once built",
}
extra = {}
p = os.path.join(here, "manifest_extra.json")
if os.path.exists(p):
    extra = json.load(open(p))
for k, v in extra.get("checks", {}).items():
    CHECKS[k] = tuple(v)
    PENDING.pop(k, None)

checks = []
for pid, (eng, text) in sorted(CHECKS.items()):
    level = "fault_enumeration" if pid == "C10" else "exploration"
    checks.append({
        "property_id": pid,
        "quick_cmd": "./check run %s --tier quick" % pid,
        "thorough_cmd": "./check run %s --tier thorough" % pid,
        "evidence_file": "/verif/evidence/%s.json" % pid,
        "replay_cmd_template": "./check replay {path}",
        "engine": {"S": "schedsim", "R": "runnercrash", "H": "histsim"}[eng],
        "level_claimed": {"category": level, "text": text + ". Sampled search: a clean batch is evidence, not proof.", "design_ref": "DESIGN.md section 4 (%s)" % pid},
        "level_note": "trusted: the simulated OS (lock table with POSIX per-process semantics, process table, directory-diff file events, signal table, one-handle-per-step asyncio loop) described in DESIGN.md 2.2; oracles read workload specs, not the code's own dependency collection",
        "technique": S if eng == "S" else extra.get("technique", {}).get(pid, S),
    })
man = {
 "version": 1,
 "setup_cmd": "./setup.sh",
 "hooks": {
   "guard": "EXPERIMAESTRO_VERIF",
   "enable": "no hook exists in /repo: every seam is a module/class attribute replaced from /verif/sim/world.py at run time (DESIGN.md 2.6); checks import experimaestro from /repo/src as it is",
   "baseline_off_cmd": "cd /repo && /venv/bin/python -m pytest -ra -q -p no:cacheprovider --timeout=900 --continue-on-collection-errors",
   "source_commits": [],
   "add_only": True,
 },
 "engines": [
   {"name": "schedsim", "path": "/verif/sim (kernel.py, world.py, runner.py, workload.py, oracles.py, check_s.py, shrink.py)", "serves_properties": sorted(k for k, v in CHECKS.items() if v[0] == "S"), "kind_free_text": "deterministic simulator: baton threads + seeded kernel + simulated OS, real experimaestro code"},
 ] + extra.get("engines", []),
 "checks": checks,
 "notes": "Genuine defects found by the checks on the pinned tree were repaired in /repo as 'fix:' commits and are listed with status 'fixed' in /verif/known_findings.json (fixed entries suppress nothing). ./check run <ID> --tier quick|thorough; ./check replay <file>; ./check selftest determinism.",
 "not_applicable": [{"property_id": k, "reason": v} for k, v in sorted({**NA, **PENDING}.items())],
}
with open(os.path.join(here, "MANIFEST.json"), "w") as f:
    json.dump(man, f, indent=1)
print("claimed", [c["property_id"] for c in checks])
