#!/bin/bash
# Maintenance tool (not a registered check): run the checks against a property-preserving change.
#   tools_benign.sh <benign dir> [own property]   -> scratch worktree of /repo + patch, every check must exit 0
set -u
dir=$(cd $1 && pwd); own=${2:-$(jq -r .anchored_in_property $dir/meta.json)}
wt=/tmp/mut/benign_$$
mkdir -p /tmp/mut
git -C /repo worktree add -q --detach $wt HEAD || exit 2
trap "git -C /repo worktree remove --force $wt" EXIT
(cd $wt && git apply $dir/patch.diff) || { echo PATCH-DOES-NOT-APPLY; exit 2; }
cd /verif
for id in C04 C05 C06 C07 C08 C09 C11 C14 C16 C19 C20 C01 C10; do
  if [ $id = $own ]; then extra=""; else extra="--runs 500"; fi
  if [ $id = C10 -a $own != C10 ]; then continue; fi
  out=$(PYTHONPATH=$wt/src ./check run $id --tier quick --no-evidence $extra 2>&1); rc=$?
  echo "$id exit=$rc :: $(echo "$out" | grep -E 'VIOLATION|class=|HARNESS' | head -3 | tr '\n' ' ' | cut -c1-300) $(echo "$out" | tail -1 | cut -c1-140)"
done
