"""Real task used by engine R (runs in a real job process)."""
import sys
from pathlib import Path

from experimaestro import Param, Task


class RTask(Task):
    mode: Param[str]
    n: Param[int]

    def execute(self):
        log = Path.cwd() / "body.log"
        with log.open("a") as f:
            f.write("begin\n")
        steps = 0
        for i in range(3):      # a few traceable lines inside the body
            steps += i
        if self.mode == "gate":
            # wait until the harness lets the body finish
            import time

            for _ in range(600):
                if (Path.cwd() / "go").exists():
                    break
                time.sleep(0.05)
        if self.mode == "raise":
            raise RuntimeError("task failed")
        if self.mode == "exit3":
            sys.exit(3)
        with log.open("a") as f:
            f.write("end\n")
