"""Deterministic simulation kernel: baton-passing real threads, one PRNG,
choice log, virtual clock, kernel events, asyncio loop under kernel control.

Nothing in this file knows about experimaestro.
"""
import asyncio
import collections
import concurrent.futures
import hashlib
import heapq
import json
import random
import sys
import threading
from asyncio import events as aio_events, futures as aio_futures


class Abandon(BaseException):
    """Raised in an actor thread that must stop without unwinding user code.

    Only used for actors that were never started; a crashed actor is simply
    never resumed (its thread stays blocked until the child os._exit()s)."""


class HarnessLimit(Exception):
    pass


class Actor:
    __slots__ = (
        "k", "name", "pid", "kind", "fn", "resume", "guard", "wake_at", "done",
        "dead", "thread", "signals", "exc", "started", "trace", "daemon", "seq",
    )

    def __init__(self, k, name, fn, pid, kind, daemon=False):
        self.k, self.name, self.fn, self.pid, self.kind = k, name, fn, pid, kind
        self.resume = threading.Event()
        self.guard = None
        self.wake_at = None
        self.done = False
        self.dead = False
        self.started = False
        self.signals = []
        self.exc = None
        self.trace = None
        self.daemon = daemon
        self.thread = threading.Thread(target=self._main, name=name, daemon=True)

    def _main(self):
        self.resume.wait()
        self.resume.clear()
        self.started = True
        k = self.k
        try:
            if self.dead:
                return
            tr = k.tracer_for(self)
            if tr is not None:
                sys.settrace(tr)
            self.fn()
        except Abandon:
            pass
        except BaseException as e:  # noqa
            self.exc = e
            k.log("actor-exc", actor=self.name, exc=type(e).__name__, msg=str(e)[:200])
            if k.on_actor_exc is not None:
                k.on_actor_exc(self, e)
        finally:
            sys.settrace(None)
            self.done = True
            k.current = None
            k.returned.set()

    def runnable(self, now):
        if self.done or self.dead:
            return False
        if self.signals:
            return True
        g, w = self.guard, self.wake_at
        if g is None and w is None:
            return True
        if w is not None and now >= w:
            return True
        return g is not None and bool(g())


class KEvent:
    """A one-shot event executed in the kernel thread (faults, process starts)."""

    __slots__ = ("name", "guard", "fn", "fired", "priority")

    def __init__(self, name, guard, fn, priority=False):
        self.name, self.guard, self.fn, self.fired, self.priority = name, guard, fn, False, priority


class Kernel:
    def __init__(self, seed, replay=None, max_steps=20000):
        self.seed = seed
        self.rng = random.Random(seed)
        self.replay = list(replay) if replay is not None else None
        self.replay_pos = 0
        self.choices = []
        self.choice_tags = []
        self.events = []
        self.seq = 0
        self.now = 0.0
        self.steps = 0
        self.max_steps = max_steps
        self.actors = []
        self.kevents = []
        self.current = None
        self.returned = threading.Event()
        self.before_resume = None
        self.after_step = []       # callables(kernel) run in kernel thread after each step
        self.on_idle = []          # callables() -> bool (True if they made progress)
        self.on_actor_exc = None
        self.tracer_for = lambda actor: None
        self.oids = {}
        self.counters = collections.Counter()   # faults fired / probes
        self.listeners = []        # callables(event tuple) called on each log
        self.stop_requested = None
        self.harness_exc = None    # set by a seam of the simulated OS when the simulator itself failed
        self.shape = hashlib.sha1()
        # fault "stall": a slow thread or a slow process.  With probability 1/stall_den per step a
        # runnable actor (or every actor of its simulated process) is not scheduled for a drawn
        # number of steps while anything else can run.
        self.stall_den = 0
        self.stalled = {}          # ("a", actor index) | ("p", pid) -> step until which it is held back

    # ----- choices
    def choose(self, n, tag):
        if n <= 1:
            return 0
        if self.replay is not None:
            if self.replay_pos < len(self.replay):
                v = self.replay[self.replay_pos] % n
            else:
                v = 0
            self.replay_pos += 1
        else:
            v = self.rng.randrange(n)
        self.choices.append(v)
        self.choice_tags.append((tag, n))
        return v

    def flip(self, num, den, tag):
        """True with probability num/den; choice value 0 always means False."""
        if num <= 0:
            return False
        return self.choose(den, tag) >= den - num

    def permute(self, items, tag):
        items = list(items)
        out = []
        while items:
            out.append(items.pop(self.choose(len(items), tag)))
        return out

    # ----- log
    def log(self, kind, /, **payload):
        self.seq += 1
        a = self.current
        ev = (self.seq, self.now, a.pid if a else 0, a.name if a else "kernel", kind, payload)
        self.events.append(ev)
        self.shape.update(("%s|%s;" % (a.kind if a else "k", kind)).encode())
        for l in self.listeners:
            l(ev)
        return ev

    def count(self, name, n=1):
        self.counters[name] += n

    def oid(self, obj, prefix="o"):
        i = self.oids.get(id(obj))
        if i is None:
            i = self.oids[id(obj)] = ("%s%d" % (prefix, len(self.oids)), obj)
        return i[0]

    def digest(self):
        h = hashlib.sha256()
        scrub = getattr(self, "scrub", None)
        for ev in self.events:
            # payload keys starting with "_" are informative only (e.g. text printed by the
            # code under test in hash order) and are not part of the digest
            ev = ev[1:5] + ({k: v for k, v in ev[5].items() if not k.startswith("_")},)
            s = json.dumps(ev, sort_keys=True, default=str)
            if scrub:
                s = s.replace(scrub, "<run>")
            h.update(s.encode())
        h.update(repr(self.choices).encode())
        return h.hexdigest()[:16]

    # ----- actors
    def spawn(self, name, fn, pid, kind, daemon=False):
        a = Actor(self, name, fn, pid, kind, daemon)
        self.actors.append(a)
        a.thread.start()
        return a

    def add_event(self, name, guard, fn, priority=False):
        e = KEvent(name, guard, fn, priority)
        self.kevents.append(e)
        return e

    def me(self):
        return self.current

    def cur_pid(self):
        a = self.current
        return a.pid if a is not None else 0

    def park(self, guard=None, wake_at=None):
        """Return the baton; resume when guard() is true / time reached."""
        a = self.current
        assert a is not None and threading.current_thread() is a.thread, (
            "park() outside the running actor",
            a and a.name,
            threading.current_thread().name,
        )
        tr = sys.gettrace()
        if tr is not None:
            sys.settrace(None)
        a.guard = guard
        a.wake_at = wake_at
        self.current = None
        self.returned.set()
        a.resume.wait()
        a.resume.clear()
        a.guard = None
        a.wake_at = None
        if tr is not None:
            sys.settrace(tr)
        while a.signals:
            sig = a.signals.pop(0)
            sig()

    def wait_until(self, cond):
        while not cond():
            self.park(cond)

    def sleep(self, d):
        self.park(wake_at=self.now + max(d, 0.0))

    def abandon_current(self):
        """The running actor's process has been crashed: never come back."""
        a = self.current
        sys.settrace(None)
        a.dead = True
        self.current = None
        self.returned.set()
        threading.Event().wait()

    def kill_pid(self, pid):
        for a in self.actors:
            if a.pid == pid and not a.done:
                a.dead = True

    # ----- main loop
    def run(self):
        while True:
            if self.stop_requested:
                return self.stop_requested
            if self.steps >= self.max_steps:
                return "cap"
            fired = False
            for e in self.kevents:
                if not e.fired and e.priority and e.guard():
                    e.fired = True
                    self.log("kevent", name=e.name)
                    e.fn()
                    fired = True
                    break
            if fired:
                self._after()
                continue
            now = self.now
            runnable = [a for a in self.actors if a.runnable(now)]
            evs = [e for e in self.kevents if not e.fired and not e.priority and e.guard()]
            if (self.stall_den or self.stalled) and runnable:
                runnable = self._stall(runnable, evs)
            n = len(runnable) + len(evs)
            if n == 0:
                sleepers = [a.wake_at for a in self.actors
                            if not a.done and not a.dead and a.wake_at is not None]
                if sleepers:
                    self.now = min(sleepers)
                    continue
                if any(f() for f in self.on_idle):
                    continue
                return "quiescent"
            i = self.choose(n, "run")
            self.steps += 1
            self.now += 0.001
            if i < len(runnable):
                a = runnable[i]
                if self.before_resume is not None:
                    self.before_resume(a)
                self.current = a
                self.returned.clear()
                a.resume.set()
                self.returned.wait()
            else:
                e = evs[i - len(runnable)]
                e.fired = True
                self.log("kevent", name=e.name)
                e.fn()
            self._after()

    STALL_LEN = (4, 12, 40, 120, 400)

    def _stall(self, runnable, evs):
        st = self.stalled
        if self.stall_den and len(runnable) > 1 and self.flip(1, self.stall_den, "stall"):
            a = runnable[self.choose(len(runnable), "stall-who")]
            whole = self.choose(2, "stall-scope")
            dur = self.STALL_LEN[self.choose(len(self.STALL_LEN), "stall-len")]
            key = ("p", a.pid) if whole else ("a", self.actors.index(a))
            st[key] = self.steps + dur
            self.count("fault:stall-process" if whole else "fault:stall-thread")
        if not st:
            return runnable
        for key in [k_ for k_, until in st.items() if until <= self.steps]:
            del st[key]
        if not st:
            return runnable
        idx = {id(a): i for i, a in enumerate(self.actors)}
        free = [a for a in runnable if ("p", a.pid) not in st and ("a", idx[id(a)]) not in st]
        if free or evs:
            return free
        # only stalled actors can run: the stall is over (a stall never blocks the system)
        st.clear()
        return runnable

    def stall_after_rare(self, pid):
        """Called by the simulated OS when a rare condition has just opened a window in process pid."""
        dur = self.STALL_LEN[1 + self.choose(len(self.STALL_LEN) - 1, "stall-len")]
        self.stalled[("p", pid)] = self.steps + dur
        self.count("fault:stall-process-after-rare-condition")

    def _after(self):
        for f in self.after_step:
            f(self)


# --------------------------------------------------------------------------
# asyncio under kernel control


class SimCFuture(concurrent.futures.Future):
    kernel = None

    def result(self, timeout=None):
        k = SimCFuture.kernel
        while not self.done():
            k.park(self.done)
        return super().result(0)

    def exception(self, timeout=None):
        k = SimCFuture.kernel
        while not self.done():
            k.park(self.done)
        return super().exception(0)


class SimLoop(asyncio.BaseEventLoop):
    """Event loop whose every handle execution is one kernel step.

    call_soon order is FIFO as documented; call_soon_threadsafe goes through an
    inbox whose delivery is a separate kernel step (arbitrary delay, FIFO)."""

    def __init__(self, kernel, name):
        super().__init__()
        self.k = kernel
        self.name = name
        self.inbox = collections.deque()
        self.task_n = 0

        def factory(loop, coro, **kw):
            self.task_n += 1
            kw.pop("name", None)
            return asyncio.Task(coro, loop=loop, name="%s-t%d" % (name, self.task_n), **kw)

        self.set_task_factory(factory)

    def time(self):
        return self.k.now

    def _write_to_self(self):
        pass

    def _process_events(self, evs):
        pass

    def call_soon_threadsafe(self, callback, *args, context=None):
        h = aio_events.Handle(callback, args, self, context)
        self.inbox.append(h)
        return h

    def _timer_due(self):
        return bool(self._scheduled) and self._scheduled[0]._when <= self.k.now

    def has_work(self):
        return bool(self._ready) or bool(self.inbox) or self._stopping or self._timer_due()

    def next_timer(self):
        while self._scheduled and self._scheduled[0]._cancelled:
            heapq.heappop(self._scheduled)
        return self._scheduled[0]._when if self._scheduled else None

    def actor_main(self):
        k = self.k
        aio_events._set_running_loop(self)
        self._thread_id = threading.get_ident()
        try:
            while True:
                k.park(self.has_work, wake_at=self.next_timer())
                if self._stopping:
                    break
                while self._timer_due():
                    h = heapq.heappop(self._scheduled)
                    h._scheduled = False
                    if not h._cancelled:
                        self._ready.append(h)
                opts = []
                if self._ready:
                    opts.append(0)
                if self.inbox:
                    opts.append(1)
                if not opts:
                    continue
                c = opts[k.choose(len(opts), "loop")]
                if c == 1:
                    self._ready.append(self.inbox.popleft())
                    k.log("inbox-deliver", loop=self.name)
                else:
                    h = self._ready.popleft()
                    if not h._cancelled:
                        h._run()
        finally:
            aio_events._set_running_loop(None)


def run_coroutine_threadsafe(coro, loop):
    future = SimCFuture()

    def callback():
        try:
            aio_futures._chain_future(asyncio.ensure_future(coro, loop=loop), future)
        except BaseException as exc:
            if future.set_running_or_notify_cancel():
                future.set_exception(exc)
            raise

    loop.call_soon_threadsafe(callback)
    return future


class SimMutex:
    """threading.Lock replacement that parks instead of blocking the OS thread."""

    kernel = None

    def __init__(self):
        self.owner = None

    def acquire(self, blocking=True, timeout=-1):
        k = SimMutex.kernel
        while self.owner is not None:
            if not blocking:
                return False
            k.count("mutex-contended")
            k.park(lambda: self.owner is None)
        self.owner = k.current
        return True

    def release(self):
        self.owner = None

    def locked(self):
        return self.owner is not None

    def __enter__(self):
        self.acquire()
        return self

    def __exit__(self, *a):
        self.release()


class Proxy:
    """Module proxy: attribute overrides first, then the real module."""

    def __init__(self, real, **over):
        self.__dict__["_r"] = real
        self.__dict__.update(over)

    def __getattr__(self, n):
        return getattr(self._r, n)
