"""Seeded scenario generators (swarm style): one profile per property.

A scenario is plain JSON; it is stored in replay files.  Only `random.Random`
seeded from the run seed is used here; the kernel PRNG decides schedules.
"""
import random

PARAM_EMBS = ["direct", "lst", "dmap", "holder", "wrapped"]
FREE_EMBS = ["pre", "init", "explicit"]


def gen_dag(rng, n, max_deps=3, embs=None, p_dep=0.6):
    embs = embs or (PARAM_EMBS + FREE_EMBS)
    kinds = [rng.choice(["leaf", "node", "node", "wtask", "wnode", "ptask"]) for _ in range(n)]
    tasks = []
    for x in range(n):
        t = {"kind": kinds[x], "deps": []}
        if x > 0 and rng.random() < p_dep:
            d = rng.randint(1, min(x, max_deps))
            used = set()
            for u in rng.sample(range(x), d):
                cands = [e for e in FREE_EMBS if e in embs]
                if kinds[x] in ("node", "wnode"):
                    cands += [e for e in ("lst", "dmap") if e in embs]
                    for e in ("direct", "holder"):
                        if e in embs and e not in used:
                            cands.append(e)
                    if kinds[u] in ("wtask", "wnode") and "wrapped" in embs:
                        cands += ["wrapped", "wrapped"]
                if not cands:
                    continue
                e = rng.choice(cands)
                used.add(e)
                t["deps"].append([u, e])
        tasks.append(t)
    return tasks


def add_tokens(rng, scn, kinds=("file", "proc"), p_task=0.7, max_tokens=2, max_total=4):
    nt = rng.randint(1, max_tokens)
    scn["tokens"] = [{"kind": rng.choice(kinds), "total": rng.randint(1, max_total)} for _ in range(nt)]
    for t in scn["tasks"]:
        t["tok"] = []
        for ti, tok in enumerate(scn["tokens"]):
            if rng.random() < p_task:
                t["tok"].append([ti, rng.randint(1, tok["total"])])


def add_failures(rng, scn, p=0.3):
    for t in scn["tasks"]:
        if rng.random() < p:
            t["out"] = [rng.choice(["exit1", "exit3", "exc"])]


def simple_plan(rng, n, waits=True, subset=None):
    xs = list(range(n)) if subset is None else list(subset)
    order = xs[:]
    # submitting a task auto-submits its upstreams, so any order is API-legal
    rng.shuffle(order)
    plan = []
    pending = []
    for x in order:
        plan.append(["submit", x])
        pending.append(x)
        if waits and rng.random() < 0.3:
            plan.append(["wait", pending.pop(rng.randrange(len(pending)))])
    if waits:
        rng.shuffle(pending)
        for x in pending:
            if rng.random() < 0.6:
                plan.append(["wait", x])
    return plan


def base(rng, n_lo=1, n_hi=6, **kw):
    n = rng.randint(n_lo, n_hi)
    return {"tasks": gen_dag(rng, n, **kw), "tokens": [], "procs": [], "jobfaults": [],
            "cfg": {"set_order": True, "trace": False, "preempt": 0, "pid_reuse": False,
                    "body_len": rng.choice([1, 1, 1, 2, 4, 10]), "start_len": rng.choice([1, 1, 1, 1, 3, 12])}}


def maybe_pid_reuse(rng, scn, p=0.15):
    """The OS may give a new job process the pid of a dead one."""
    if rng.random() < p:
        scn["cfg"]["pid_reuse"] = True


def maybe_trace(rng, scn, p=0.4):
    if rng.random() < p:
        scn["cfg"]["trace"] = True
        scn["cfg"]["preempt"] = rng.choice([6, 12, 25, 50])


# ---------------------------------------------------------------- profiles


RAISE_KINDS = ["UserError", "UserError", "SystemExit", "KeyboardInterrupt"]   # how a block is left


def add_outpre(rng, scn):
    """Dependencies hidden behind a pre-task attached to another upstream's output wrapper."""
    tasks = scn["tasks"]
    for x, t in enumerate(tasks):
        wrapped = [u for u, e in t.get("deps", []) if e == "wrapped"]
        if not wrapped or rng.random() > 0.5:
            continue
        have = {u for u, _ in t["deps"]}
        cands = [u for u in range(x) if u not in have]
        if cands:
            t["deps"].append([rng.choice(cands), ["outpre", rng.choice(wrapped)]])


def gen_C04(rng, tier):
    scn = base(rng, 2, 7, p_dep=0.85)
    n = len(scn["tasks"])
    add_outpre(rng, scn)
    if rng.random() < 0.25:
        add_failures(rng, scn, 0.2)
    if rng.random() < 0.45:
        # (tokens matter here because their notifications reach a job that still waits for an
        # upstream: small totals and many holders make a token's status flap while it waits)
        add_tokens(rng, scn, kinds=("file",), p_task=0.9, max_total=3)
    nproc = 1 if rng.random() < 0.6 else 2
    for i in range(nproc):
        sub = None if i == 0 else sorted(rng.sample(range(n), rng.randint(1, n)))
        spec = {"xp": "x%d" % (i if rng.random() < 0.7 else 0), "plan": simple_plan(rng, n, subset=sub) + [["xpwait"]]}
        if i > 0:
            r = rng.random()
            if r < 0.4:
                spec["start"] = {"after_exit": 0}
            elif r < 0.8:
                spec["start"] = {"after_steps": rng.randint(0, 150)}
        scn["procs"].append(spec)
    maybe_trace(rng, scn, 0.2)
    return scn


def gen_C05(rng, tier):
    scn = base(rng, 1, 5)
    n = len(scn["tasks"])
    if rng.random() < 0.2:
        add_failures(rng, scn, 0.25)
    nproc = rng.choice([1, 1, 2, 2, 3])
    same_xp = rng.random() < 0.3
    for i in range(nproc):
        plan = simple_plan(rng, n)
        # duplicates at arbitrary positions
        for _ in range(rng.randint(1, 3)):
            x = rng.randrange(n)
            pos = rng.randint(0, len(plan))
            plan.insert(pos, ["dup", x])
        plan.append(["xpwait"])
        spec = {"xp": "x0" if same_xp else "x%d" % i, "plan": plan}
        if i > 0:
            r = rng.random()
            if r < 0.35:
                spec["start"] = {"after_exit": i - 1}
            elif r < 0.85:
                spec["start"] = {"after_steps": rng.randint(0, 120)}
        scn["procs"].append(spec)
    maybe_trace(rng, scn, 0.4)
    # a second user thread of a process submits a configuration that the main thread submits too
    # ("several schedulers (threads or processes) submit the same job concurrently"); only where
    # nothing fails, so that every submission of it is a duplicate of a live job
    r2 = random.Random(repr(rng.getstate()[1][:4]))
    roots = [x for x, t in enumerate(scn["tasks"]) if not t.get("deps")]
    if r2.random() < 0.25 and roots and all((t.get("out") or ["ok"]) == ["ok"] for t in scn["tasks"]):
        for spec in scn["procs"]:
            if r2.random() < 0.7:
                for _ in range(r2.randint(1, 2)):
                    spec["plan"].insert(r2.randint(0, len(spec["plan"]) - 1), ["par", r2.choice(roots)])
    return scn


def gen_rerun_after_clean(rng, tier):
    """A completed run, a cleaning command that removes some of its jobs, then the same plan
    again with attempt-dependent outcomes (a job that is DONE from the first run may see one
    of its dependencies run again and fail)."""
    scn = base(rng, 2, 6, p_dep=0.85)
    n = len(scn["tasks"])
    for t in scn["tasks"]:
        t["tags"] = {"m": rng.choice(["a", "b"])}
        if t["tags"]["m"] == "a":
            t["out"] = ["ok", rng.choice(["ok", "exit1", "exc"])]
    plan = simple_plan(rng, n, waits=rng.random() < 0.5) + [["xpwait"]]
    scn["procs"].append({"xp": "x0", "plan": plan})
    scn["procs"].append({"kind": "cli", "ops": [{"cmd": "jobs-clean", "filter": ["eq", "m", "a"], "experiment": None, "perform": True, "tags": False}],
                         "start": {"after_exit": 0, "jobs_ended": True}})
    scn["procs"].append({"xp": "x0", "plan": simple_plan(rng, n, waits=rng.random() < 0.7) + ([["xpwait"]] if rng.random() < 0.7 else []),
                         "start": {"after_exit": 1}})
    maybe_trace(rng, scn, 0.15)
    return scn


def gen_C06_adopt(rng, tier):
    """Truthfulness for adopted jobs: the first run is killed while a job runs, the second run
    of the same experiment adopts the process, which then ends on its own, fails, or is killed
    (SIGKILL: no marker at all)."""
    scn = base(rng, 1, 4, p_dep=0.4)
    n = len(scn["tasks"])
    if rng.random() < 0.3:
        add_failures(rng, scn, 0.3)
    scn["cfg"]["body_len"] = rng.choice([8, 20, 50])
    first = {"xp": "x0", "plan": simple_plan(rng, n) + [["xpwait"]],
             "crash": {"sig": rng.choice(["KILL", "TERM"]), "trigger": {"event": "body-start", "nth": rng.randint(1, 2), "delay": rng.choice([0, 2, 6])}}}
    second = {"xp": "x0", "plan": simple_plan(rng, n) + [["xpwait"]], "start": {"after_exit": 0}}
    if rng.random() < 0.7:
        scn["jobfaults"] = [{"x": None, "sig": rng.choice(["KILL", "KILL", "KILL", "TERM", "INT"]), "when": "adopted",
                             "delay": rng.choice([0, 1, 3, 8, 20])}]
    scn["procs"] += [first, second]
    return scn


def gen_C06(rng, tier):
    r0 = rng.random()
    if r0 < 0.12:
        return gen_rerun_after_clean(rng, tier)
    if r0 < 0.22:
        return gen_C06_adopt(rng, tier)
    scn = base(rng, 1, 6)
    n = len(scn["tasks"])
    r = rng.random()
    if r < 0.65:
        add_tokens(rng, scn)
    if rng.random() < 0.3:
        add_failures(rng, scn, 0.3)
    nproc = 1
    if all(t["kind"] == "file" for t in scn["tokens"]) and rng.random() < 0.35:
        nproc = 2
    resub = nproc == 1 and rng.random() < 0.4
    for i in range(nproc):
        sub = None if i == 0 else sorted(rng.sample(range(n), rng.randint(1, n)))
        plan = simple_plan(rng, n, subset=sub)
        if resub:
            x = rng.randrange(n)
            scn["tasks"][x]["out"] = [rng.choice(["exit1", "exc"]), "ok"]
            plan.append(["wait", x] if rng.random() < 0.5 else ["await-final", x])
            plan.append(["resubmit", x])
            if rng.random() < 0.7:
                plan.append(["wait", x])
        if rng.random() < 0.7:
            plan.append(["xpwait"])
        spec = {"xp": "x%d" % i, "plan": plan}
        if i > 0 and rng.random() < 0.7:
            spec["start"] = {"after_steps": rng.randint(0, 100)}
        scn["procs"].append(spec)
    maybe_trace(rng, scn, 0.15)
    maybe_pid_reuse(rng, scn)
    return scn


def gen_C07(rng, tier):
    scn = base(rng, 2, 7, p_dep=0.8)
    n = len(scn["tasks"])
    add_failures(rng, scn, rng.choice([0.0, 0.15, 0.3, 0.5]))
    if rng.random() < 0.3:
        add_tokens(rng, scn, p_task=0.5)
    if rng.random() < 0.2:
        x = rng.randrange(n)
        scn["jobfaults"].append({"x": x, "sig": rng.choice(["KILL", "TERM", "INT"]), "when": "body"})
    two_runs = rng.random() < 0.3 and all(t["kind"] == "file" for t in scn["tokens"])
    if two_runs:
        sub = sorted(rng.sample(range(n), rng.randint(1, n)))
        first = {"xp": "x0", "plan": simple_plan(rng, n, subset=sub) + [["xpwait"]]}
        second = {"xp": "x0", "plan": simple_plan(rng, n), "start": {"after_exit": 0, "jobs_ended": True}}
        if rng.random() < 0.4:
            # the first run is killed while jobs run; the second adopts them (and a job may be
            # killed only then)
            first["crash"] = {"sig": rng.choice(["KILL", "TERM"]),
                              "trigger": {"event": "body-start", "nth": rng.randint(1, 3), "delay": rng.choice([0, 2, 6, 15])}}
            second["start"] = {"after_exit": 0}
            scn["cfg"]["body_len"] = rng.choice([8, 20, 50])
            if rng.random() < 0.7:
                # kill (mostly SIGKILL: no marker at all is left) the process the second run adopts
                scn["jobfaults"] = [{"x": None, "sig": rng.choice(["KILL", "KILL", "KILL", "TERM"]), "when": "adopted",
                                     "delay": rng.choice([0, 1, 3, 8, 20])}]
            else:
                for jf in scn["jobfaults"]:
                    jf["delay"] = rng.choice([0, 10, 40, 100, 200])
        scn["procs"].append(first)
        scn["procs"].append(second)
        # outcomes must not depend on the attempt for the model to be exact
    else:
        plan = simple_plan(rng, n)
        if rng.random() < 0.25:
            # a failed job is submitted again (and then succeeds): what was cancelled stays cancelled,
            # leaving the experiment still reports the failure
            x = rng.randrange(n)
            scn["tasks"][x]["out"] = [rng.choice(["exit1", "exc"]), "ok"]
            plan += [["wait", x], ["resubmit", x]]
            if rng.random() < 0.6:
                plan.append(["wait", x])
        scn["procs"].append({"xp": "x0", "plan": plan})
    maybe_trace(rng, scn, 0.1)
    return scn


def gen_C08_contended(rng, tier):
    """Several schedulers with jobs of their own (disjoint sets, no dependencies) that all compete
    for one small file token, with line-level pre-emption: the ordinary multi-experiment use."""
    scn = base(rng, 4, 8, p_dep=0.0)
    n = len(scn["tasks"])
    total = rng.randint(1, 3)
    scn["tokens"] = [{"kind": "file", "total": total}]
    for t in scn["tasks"]:
        t["tok"] = [[0, rng.randint(1, total)]]
    nproc = rng.choice([2, 2, 3])
    order = list(range(n))
    rng.shuffle(order)
    for i in range(nproc):
        spec = {"xp": "x%d" % i, "plan": simple_plan(rng, n, subset=sorted(order[i::nproc]), waits=rng.random() < 0.3) + [["xpwait"], ["linger"]]}
        if i > 0 and rng.random() < 0.4:
            spec["start"] = {"after_steps": rng.randint(0, 40)}
        scn["procs"].append(spec)
    scn["cfg"]["trace"] = True
    scn["cfg"]["preempt"] = rng.choice([12, 25, 50])
    return scn


def gen_C08(rng, tier):
    if rng.random() < 0.5:
        return gen_C08_contended(rng, tier)
    scn = base(rng, 3, 7, p_dep=0.3)
    n = len(scn["tasks"])
    nproc = rng.choice([1, 1, 2, 2, 3])
    add_tokens(rng, scn, kinds=("file", "proc") if nproc == 1 else ("file",), p_task=0.85)
    if rng.random() < 0.25:
        add_failures(rng, scn, 0.25)
    same_jobs = rng.random() < 0.35      # every scheduler runs the same jobs (holdings of one job by several processes)
    for i in range(nproc):
        sub = None if (i == 0 or same_jobs) else sorted(rng.sample(range(n), rng.randint(1, n)))
        disjoint = rng.random() < 0.5
        spec = {"xp": "x%d" % i, "plan": simple_plan(rng, n, subset=sub, waits=rng.random() < 0.5) + [["xpwait"], ["linger"]]}
        if i > 0 and rng.random() < 0.6:
            spec["start"] = {"after_steps": rng.randint(0, 80)}
        scn["procs"].append(spec)
    maybe_trace(rng, scn, 0.5)
    if scn["cfg"]["preempt"]:
        scn["cfg"]["preempt"] = rng.choice([12, 25, 50, 100])
    return scn


def gen_C09_orphan(rng, tier):
    """A scheduler is killed while its first job holds the token; the job goes on as an orphan.
    Either the orphan is then killed hard (its pid file and token file stay) and the experiment
    is started again once it is dead, or the experiment is started again while the orphan still
    runs (line-level pre-emption: the orphan's end meets the new scheduler's token operations)."""
    scn = base(rng, 2, 5, p_dep=0.3)
    n = len(scn["tasks"])
    total = rng.randint(1, 2)
    scn["tokens"] = [{"kind": "file", "total": total}]
    for t in scn["tasks"]:
        t["tok"] = [[0, rng.randint(1, total)]]
    scn["cfg"]["body_len"] = rng.choice([10, 25, 60])
    killed = rng.random() < 0.5
    p0 = {"xp": "x0", "plan": simple_plan(rng, n, waits=False) + [["xpwait"]],
          "crash": {"sig": rng.choice(["KILL", "KILL", "TERM"]), "trigger": {"event": "body-start", "nth": 1, "delay": rng.randint(0, 4)}}}
    p1 = {"xp": "x0", "plan": simple_plan(rng, n, waits=rng.random() < 0.3) + [["xpwait"], ["linger"]], "start": {"after_exit": 0}}
    if killed:
        scn["jobfaults"].append({"x": None, "sig": "KILL", "when": "body", "nth": 1, "delay": rng.randint(6, 30)})
        p1["start"]["jobs_ended"] = True
    else:
        scn["cfg"]["trace"] = True
        scn["cfg"]["preempt"] = rng.choice([12, 25, 50])
    scn["procs"] += [p0, p1]
    scn["cfg"]["audit"] = True
    return scn


def gen_C09(rng, tier):
    if rng.random() < 0.15:
        return gen_C09_orphan(rng, tier)
    scn = gen_C08(rng, tier)
    n = len(scn["tasks"])
    r = rng.random()
    if r < 0.35:
        # a scheduler dies while its jobs hold tokens; the jobs go on
        i = rng.randrange(len(scn["procs"]))
        scn["procs"][i]["crash"] = {
            "sig": rng.choice(["KILL", "TERM"]),
            "trigger": rng.choice([
                {"event": "body-start", "nth": rng.randint(1, 3), "delay": rng.randint(0, 20)},
                {"event": "spawn", "nth": rng.randint(1, 3), "delay": rng.randint(0, 6)},
                {"step": rng.randint(5, 200)},
            ]),
        }
        scn["cfg"]["audit"] = True
    if rng.random() < 0.3:
        # ... and/or a job is killed (after a scheduler crash nobody cleans up behind it)
        x = rng.randrange(n)
        scn["jobfaults"].append({"x": x, "sig": rng.choice(["KILL", "KILL", "TERM", "INT"]), "when": "body"})
    if rng.random() < 0.2:
        scn["cfg"]["pid_reuse"] = True
    if rng.random() < 0.4:
        scn["cfg"]["readdir_shuffle"] = True
    return scn


CRASH_FUNCS = ["aio_run", "aio_run", "aio_start", "aio_start", "aio_submit", "prepare", "write", "output", "create", "acquire", "release",
               "_update", "__enter__", "__exit__", "start", "aio_process", "submit", "dependencychanged"]


def crash_spec(rng, sigs=("KILL", "TERM", "INT")):
    r = rng.random()
    if r < 0.3:
        # the k-th traced line executed inside one of the functions where durable state changes
        return {"sig": rng.choice(sigs), "trigger": {"func": rng.choice(CRASH_FUNCS), "k": rng.randint(1, 28)}}
    r = rng.random()
    if r < 0.3:
        trig = {"step": rng.randint(1, 160)}
    elif r < 0.6:
        kind = rng.choice(["spawn", "body-start", "body-end", "proc-exit", "submit-return", "flock", "funlock", "xp-entered"])
        trig = {"event": kind, "nth": rng.randint(1, 4), "delay": rng.choice([0, 0, 1, 2, 5, 12])}
    else:
        trig = {"line_frac": rng.random()}
    return {"sig": rng.choice(sigs), "trigger": trig}


def gen_C11(rng, tier):
    scn = base(rng, 1, 5, p_dep=0.7)
    n = len(scn["tasks"])
    # long bodies: a restart should usually find jobs of the killed run still running
    scn["cfg"]["body_len"] = rng.choice([1, 4, 12, 30, 60])
    scn["cfg"]["start_len"] = rng.choice([1, 1, 5, 20, 60])     # the orphan of the killed run may still be starting
    if rng.random() < 0.35:
        add_tokens(rng, scn, kinds=("file",), max_tokens=1)
    if rng.random() < 0.15:
        add_failures(rng, scn, 0.3)
    plan = simple_plan(rng, n, waits=rng.random() < 0.5) + [["xpwait"]]
    crash = crash_spec(rng)
    if rng.random() < 0.12:
        # fault placed inside in-flight state: the scheduler dies right after it started a job
        # process, i.e. (mostly) before the pid file of that process exists
        # (no scheduling point lies between the two, so the crash point is a traced line: the
        # k-th line executed inside aio_run, k around the start of the process)
        crash = {"sig": rng.choice(["KILL", "KILL", "TERM"]), "trigger": {"func": "aio_run", "k": rng.randint(10, 24)}}
    scn["procs"].append({"xp": "x0", "plan": plan, "crash": crash})
    start = {"after_exit": 0}
    if rng.random() < 0.3:
        start["jobs_ended"] = True
    scn["procs"].append({"xp": "x0", "plan": [list(op) for op in plan], "start": start})
    if scn["procs"][0]["crash"]["trigger"].get("line_frac") is None and rng.random() < 0.2:
        maybe_trace(rng, scn, 1.0)
    maybe_pid_reuse(rng, scn, 0.25)
    if rng.random() < 0.25:
        # a job is killed at some point of its (long) body: before the scheduler dies, while
        # nobody watches it, or after the restarted experiment adopted it
        x = rng.randrange(n)
        if rng.random() < 0.5:
            scn["jobfaults"].append({"x": x, "sig": rng.choice(["KILL", "KILL", "TERM"]), "when": "body",
                                     "delay": rng.choice([0, 5, 30, 80, 150, 300])})
        else:
            scn["jobfaults"].append({"x": None, "sig": rng.choice(["KILL", "KILL", "TERM"]), "when": "adopted",
                                     "delay": rng.choice([0, 1, 3, 8, 20])})
    return scn


def gen_C16(rng, tier):
    scn = base(rng, 2, 5, p_dep=0.5)
    n = len(scn["tasks"])
    scn["cfg"]["orphans"] = True
    if rng.random() < 0.15:
        add_failures(rng, scn, 0.25)
    nruns = rng.randint(1, 4)
    for i in range(nruns):
        sub = sorted(rng.sample(range(n), rng.randint(1, n)))
        plan = simple_plan(rng, n, subset=sub, waits=rng.random() < 0.4)
        spec = {"xp": "x0", "plan": plan}
        r = rng.random()
        if r < 0.2:
            plan.insert(rng.randint(0, len(plan)), ["raise", rng.choice(RAISE_KINDS)])
        elif r < 0.55:
            c = rng.random()
            if c < 0.3:
                trig = {"event": rng.choice(["xp-enter-call", "xp-entered", "xp-block-end"]), "nth": 1, "own": True,
                        "delay": rng.choice([0, 0, 1, 2, 3])}
                spec["crash"] = {"sig": rng.choice(["KILL", "TERM", "INT"]), "trigger": trig}
            else:
                spec["crash"] = crash_spec(rng)
        if i > 0:
            spec["start"] = {"after_exit": i - 1}
            if rng.random() < 0.4:
                spec["start"]["jobs_ended"] = True
        scn["procs"].append(spec)
    scn["cfg"]["readdir_shuffle"] = rng.random() < 0.4
    if not any("line_frac" in ((p.get("crash") or {}).get("trigger") or {}) for p in scn["procs"]):
        maybe_trace(rng, scn, 0.35)       # pre-emption inside __enter__/__exit__ (contender vs. leaving process)
    if rng.random() < 0.3:
        # a contender entering the same experiment while somebody may hold it
        sub = sorted(rng.sample(range(n), rng.randint(1, n)))
        scn["procs"].append({"xp": "x0", "plan": simple_plan(rng, n, subset=sub, waits=False),
                             "start": {"after_steps": rng.randint(0, 200)}})
    # runs in another run mode (dry run: no lock, nothing prepared; generate-only: lock taken, job
    # folders prepared, nothing scheduled): they must leave both indexes as they found them
    r2 = random.Random(repr(rng.getstate()[1][:4]))
    if r2.random() < 0.35:
        for spec in scn["procs"][1:nruns]:
            if "crash" not in spec and r2.random() < 0.5:
                spec["mode"] = r2.choice(["generate", "generate", "dry"])
                spec["plan"] = [op for op in spec["plan"] if op[0] in ("submit", "raise", "xpwait")]
    return scn


TAGS = {"m": ["a", "b", "c"], "k": ["u", "v"]}


def gen_filter(rng, depth=0):
    r = rng.random()
    if depth == 0 and r < 0.35:
        op = rng.choice(["and", "or"])
        return [op] + [gen_filter(rng, 1) for _ in range(rng.choice([2, 2, 3, 3, 4, 5]))]
    var = rng.choice(["m", "k", "@state", "@name", "m", "k"])
    if var == "@state":
        vals = ["DONE", "ERROR", "RUNNING"]
    elif var == "@name":
        vals = ["sim.simtasks.leaf", "sim.simtasks.node", "sim.simtasks.wtask", "sim.simtasks.wnode"]
    else:
        vals = TAGS[var] + ["zz"]
    kind = rng.choice(["eq", "eq", "in", "notin", "re"])
    if kind == "eq":
        return ["eq", var, rng.choice(vals)]
    if kind in ("in", "notin"):
        return [kind, var, rng.sample(vals, rng.randint(1, min(2, len(vals))))]
    v = rng.choice(vals)
    # (escapes and character classes: the pattern reaches `re` exactly as written between the quotes)
    return ["re", var, rng.choice([v, v[:1] + ".*", ".*" + v[-1:], "(" + v + "|zz)",
                                   v.replace(".", "\\."), v[:1] + "\\w*", "\\w+\\.\\w+\\." + v.split(".")[-1] if "." in v else "\\w",
                                   "[^\\d]" + v[1:], v[:-1] + "\\S"])]


def gen_cli_ops(rng, xps):
    ops = []
    for _ in range(rng.randint(1, 3)):
        r = rng.random()
        if r < 0.6:
            ops.append({"cmd": "jobs-clean", "filter": gen_filter(rng) if rng.random() < 0.8 else None,
                        "experiment": rng.choice(xps) if rng.random() < 0.35 else None,
                        "perform": rng.random() < 0.75, "tags": rng.random() < 0.3})
        elif r < 0.75:
            ops.append({"cmd": "jobs-list", "filter": gen_filter(rng) if rng.random() < 0.7 else None,
                        "experiment": rng.choice(xps) if rng.random() < 0.3 else None, "tags": rng.random() < 0.5})
        else:
            ops.append({"cmd": "orphans", "clean": rng.random() < 0.7})
    return ops


def gen_C19(rng, tier):
    scn = base(rng, 2, 5, p_dep=0.4)
    n = len(scn["tasks"])
    for t in scn["tasks"]:
        t["tags"] = {name: rng.choice(vals) for name, vals in TAGS.items() if rng.random() < 0.8}
    add_failures(rng, scn, rng.choice([0.0, 0.3, 0.5]))
    relaunch = rng.random() < 0.35
    if relaunch:
        x = rng.randrange(n)
        scn["tasks"][x]["out"] = [rng.choice(["exit1", "exc"]), "ok"]
    # experiment names: unrelated, or one a prefix/substring of the other
    xps = rng.choice([["x0", "x1"], ["x0"], ["ir", "ir-large"], ["mn", "bm-mn-v2"]])
    nruns = rng.randint(1, 3)
    for i in range(nruns):
        sub = sorted(rng.sample(range(n), rng.randint(1, n)))
        plan = simple_plan(rng, n, subset=sub, waits=rng.random() < 0.4)
        spec = {"xp": xps[i % len(xps)] if rng.random() < 0.6 else rng.choice(xps), "plan": plan}
        r = rng.random()
        if r < 0.15:
            plan.insert(rng.randint(0, len(plan)), ["raise", rng.choice(RAISE_KINDS)])
        elif r < 0.35:
            spec["crash"] = crash_spec(rng, sigs=("KILL", "TERM"))
        if i > 0:
            spec["start"] = {"after_exit": i - 1}
            if rng.random() < 0.5:
                spec["start"]["jobs_ended"] = True
        scn["procs"].append(spec)
    concurrent = rng.random() < 0.45
    ncli = rng.randint(1, 2)
    for j in range(ncli):
        spec = {"kind": "cli", "ops": gen_cli_ops(rng, xps)}
        if j > 0:
            # CLI commands are issued one after the other (two concurrent cleaners only make
            # one of them stop with FileNotFoundError, which is not what is claimed)
            spec["start"] = {"after_exit": len(scn["procs"]) - 1}
        elif concurrent:
            spec["start"] = rng.choice([
                {"after_event": "spawn", "nth": rng.randint(1, 4), "delay": rng.choice([0, 0, 1, 2, 4])},
                {"after_event": "body-start", "nth": rng.randint(1, 3), "delay": rng.choice([0, 1, 3])},
                {"after_event": "proc-exit", "nth": rng.randint(1, 3), "delay": rng.choice([0, 1, 3])},
                {"after_steps": rng.randint(20, 250)},
            ])
        else:
            spec["start"] = {"after_exit": nruns - 1, "jobs_ended": True}
        scn["procs"].append(spec)
    maybe_trace(rng, scn, 0.3 if concurrent else 0.0)
    scn["cfg"]["readdir_shuffle"] = rng.random() < 0.4
    # tasks that keep their own stage files in the job directory, named like the runner's markers
    # (separate generator: the scenarios of earlier versions stay what they were)
    r2 = random.Random(repr(rng.getstate()[1][:4]))
    if r2.random() < 0.3:
        for t in scn["tasks"]:
            if r2.random() < 0.5:
                t["stagefiles"] = r2.choice([["stage1.done"], ["part0.failed"], ["stage1.done", "part0.failed"], ["old.pid"]])
    return scn


def gen_C20(rng, tier):
    n = rng.randint(1, 5)
    kinds = ["dep-root", "dep-param", "dep-list", "dep-nested", "dep-plain"]
    scn = {"tasks": [{"kind": rng.choice(kinds), "deps": []} for _ in range(n)], "tokens": [], "procs": [], "jobfaults": [],
           "cfg": {"set_order": True, "trace": False, "preempt": 0, "pid_reuse": False, "results": True, "tree": True}}
    if rng.random() < 0.2:
        add_failures(rng, scn, 0.3)
    plan = simple_plan(rng, n, waits=True) + [["xpwait"]]
    scn["procs"].append({"xp": "x0", "variant": "old", "plan": plan})
    scn["procs"].append({"kind": "deprecate", "start": {"after_exit": 0, "jobs_ended": True}})
    nfix = rng.randint(1, 3)
    linked_then_cleanup = rng.random() < 0.3     # previously linked workspace, then asked to clean up
    if linked_then_cleanup:
        nfix = 2
    for i in range(nfix):
        last = i == nfix - 1
        op = {"fix": True if last else rng.random() < 0.8, "cleanup": rng.random() < 0.5}
        if linked_then_cleanup:
            op = {"fix": True, "cleanup": last}
        spec = {"kind": "fix", "ops": [op], "start": {"after_exit": len(scn["procs"]) - 1}}
        if not last and rng.random() < (0.3 if linked_then_cleanup else 0.7):
            spec["crash"] = {"sig": "KILL", "trigger": {"line_frac": rng.random()}}
        elif last and rng.random() < 0.25:
            spec["ops"].append({"fix": True, "cleanup": rng.random() < 0.5})
        scn["procs"].append(spec)
        if not last and rng.random() < 0.2:
            # the workspace is moved between two repairs: links made so far dangle
            scn["procs"].append({"kind": "relocate", "start": {"after_exit": len(scn["procs"]) - 1}})
    scn["procs"].append({"xp": "x0", "variant": "new", "plan": simple_plan(rng, n, waits=False) + [["xpwait"]],
                         "start": {"after_exit": len(scn["procs"]) - 1}})
    scn["cfg"]["readdir_shuffle"] = rng.random() < 0.6
    return scn


def gen_C14(rng, tier):
    scn = base(rng, 1, 5, p_dep=0.75)
    n = len(scn["tasks"])
    scn["cfg"]["c14"] = True
    if rng.random() < 0.3:
        add_tokens(rng, scn, kinds=("file", "proc"), max_tokens=1)
    if rng.random() < 0.15:
        add_failures(rng, scn, 0.3)
    plan = []
    order = list(range(n))
    rng.shuffle(order)
    submitted = []
    for x in order:
        plan.append(["submit", x])
        submitted.append(x)
        for _ in range(rng.randint(0, 3)):
            r = rng.random()
            if r < 0.25:
                plan.append(["yield", rng.randint(1, 6)])
            else:
                kind = rng.choice(["assign", "assign", "assign-none", "set_meta", "add_pretasks", "add_pretasks_from", "identifier", "copy-inplace"])
                # any task whose upstreams were auto-submitted is a legal target as well
                plan.append(["mutate", rng.choice(submitted + list(range(n))), rng.randint(0, 7), kind])
        if rng.random() < 0.3:
            plan.append(["wait", rng.choice(submitted)])
    for _ in range(rng.randint(0, 3)):
        plan.append(["mutate", rng.randrange(n), rng.randint(0, 7), rng.choice(["assign", "set_meta", "add_pretasks", "add_pretasks_from", "assign-none"])])
    plan.append(["xpwait"])
    scn["procs"].append({"xp": "x0", "plan": plan})
    maybe_trace(rng, scn, 0.15)
    return scn


PROFILES = {
    "C04": gen_C04, "C05": gen_C05, "C06": gen_C06, "C07": gen_C07, "C08": gen_C08, "C09": gen_C09, "C11": gen_C11, "C16": gen_C16, "C19": gen_C19, "C20": gen_C20, "C14": gen_C14,
}


# other profiles whose scenarios a property's oracle is also sound on (diversity:
# a quarter of each check's runs come from them)
MIX = {
    "C04": ["C05", "C06", "C07", "C08"],
    "C05": ["C04", "C06", "C08"],
    "C06": ["C04", "C05", "C07", "C08", "C09"],
    "C08": ["C06", "C09"],
    "C09": ["C08"],
}


def generate(prop, seed, tier="quick"):
    rng = random.Random(("wl", prop, seed).__repr__())
    profile = prop
    if prop in MIX and rng.random() < 0.25:
        profile = rng.choice(MIX[prop])
    scn = PROFILES[profile](rng, tier)
    scn["prop"] = prop
    scn["profile"] = profile
    # fault "stall" (slow thread / slow process), drawn from a generator of its own so that the
    # workloads themselves are the same with and without it
    srng = random.Random(("stall", prop, seed).__repr__())
    if srng.random() < 0.3:
        scn.setdefault("cfg", {})["stall"] = srng.choice([12, 30, 80])
    return scn
