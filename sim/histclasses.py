"""Configuration classes for engine H (identifier under operation histories)."""
from enum import Enum
from typing import Any, Callable, Dict, List, Optional

from experimaestro import Config, LightweightTask, Param, Task


class Color(Enum):
    RED = 1
    GREEN = 2
    BLUE = 3


class N(Config):
    i: Param[int]
    s: Param[str] = "d"
    f: Param[float] = 1.5
    e: Param[Color] = Color.RED
    a: Param[Optional["N"]] = None
    b: Param[Optional["N"]] = None
    lst: Param[List["N"]] = []
    dct: Param[Dict[str, "N"]] = {}


class HPre(LightweightTask):
    i: Param[int]
    a: Param[Optional[N]] = None

    def execute(self):
        pass


class HT(Task):
    i: Param[int]
    a: Param[Optional[N]] = None

    def execute(self):
        pass


class HOut(Config):
    src: Param["HTW"]


class HTW(Task):
    """Task whose submit() returns a wrapper."""

    i: Param[int]
    a: Param[Optional[N]] = None

    def task_outputs(self, dep: Callable[[Config], None]) -> Any:
        return dep(HOut(src=self))

    def execute(self):
        pass


class U(Config):
    """Upper node: refers to task outputs and plain nodes."""

    i: Param[int]
    t: Param[Optional[HT]] = None
    w: Param[Optional[HOut]] = None
    a: Param[Optional[N]] = None
    ts: Param[List[HT]] = []
