"""Property C14: mutation attempts after submit, interleaved with scheduler progress."""
import json
import os


def normalize(objects):
    """Object definitions with python ids replaced by their order of appearance."""
    ids = {}

    def oid(i):
        if i not in ids:
            ids[i] = "o%d" % len(ids)
        return ids[i]

    def walk(v):
        if isinstance(v, list):
            return [walk(a) for a in v]
        if isinstance(v, dict):
            if v.get("type") == "python" and "value" in v:
                return {"type": "python", "value": oid(v["value"])}
            return {k: walk(a) for k, a in sorted(v.items())}
        return v

    out = []
    for d in objects:
        d = dict(d)
        d["id"] = oid(d["id"])
        for key in ("pre-tasks", "init-tasks"):
            if key in d:
                d[key] = [oid(i) for i in d[key]]
        if "task" in d and d["task"] is not None and not isinstance(d["task"], dict):
            d["task"] = oid(d["task"])
        d["fields"] = walk(d.get("fields", {}))
        d.pop("identifier", None) if False else None
        out.append({k: d[k] for k in sorted(d)})
    return out


def serialize(task):
    from experimaestro.core.context import SerializationContext

    return normalize(task.__xpm__.__get_objects__([], SerializationContext()))


def snapshot_identity(task):
    return {
        "ident": task.__xpm__.identifier.all.hex(),
        "path": str(task.__xpm__.job.path),
    }


def nodes_of(task):
    """Configurations reachable from a task, by role."""
    from experimaestro import Config

    out = {"self": task}
    xpm = task.__xpm__
    for name, value in xpm.values.items():
        if isinstance(value, Config):
            out.setdefault("param:" + name, value)
            for n2, v2 in value.__xpm__.values.items():
                if isinstance(v2, Config):
                    out.setdefault("nested:" + n2, v2)
        elif isinstance(value, list):
            for v in value:
                if isinstance(v, Config):
                    out.setdefault("list:" + name, v)
        elif isinstance(value, dict):
            for v in value.values():
                if isinstance(v, Config):
                    out.setdefault("dict:" + name, v)
    for p in xpm.pre_tasks:
        out.setdefault("pretask", p)
    for p in xpm.init_tasks:
        out.setdefault("inittask", p)
    return out


def do_mutate(runner, st, op):
    from . import simtasks as S

    k = runner.k
    _, x, sel, kind = op
    task = st.obj.get(x)
    if task is None:
        return
    nodes = nodes_of(task)
    names = sorted(nodes)
    node_name = names[sel % len(names)]
    node = nodes[node_name]
    before = snapshot_identity(task)
    raised = None
    # everything the attempt needs is built first: only the mutating call itself may raise
    action = None
    if kind == "assign":
        arg = None
        for a in node.__xpmtype__.arguments.values():
            arg = a
            break
        if arg is None:
            return
        cur = node.__xpm__.values.get(arg.name)
        newv = cur + 1000 if isinstance(cur, int) else cur
        action = lambda: setattr(node, arg.name, newv)  # noqa: E731
    elif kind == "assign-none":
        names_ = [a.name for a in node.__xpmtype__.arguments.values()]
        if not names_:
            return
        action = lambda: setattr(node, names_[-1], None)  # noqa: E731
    elif kind == "set_meta":
        action = lambda: node.__xpm__.set_meta(True)  # noqa: E731
    elif kind == "add_pretasks":
        pt = S.Pre(src=S.Plain(v=9999))
        action = lambda: node.add_pretasks(pt)  # noqa: E731
    elif kind == "add_pretasks_from":
        donor = S.Plain(v=9998)
        donor.add_pretasks(S.Pre(src=S.Plain(v=9997)))
        action = lambda: node.add_pretasks_from(donor)  # noqa: E731
    elif kind == "copy-inplace":
        # a *legal* operation: copy a (sealed) node, then change the copy's containers in place.
        # The submitted graph must not change (no container may be shared with the copy).
        from experimaestro import copyconfig
        from .kernel import Abandon

        try:
            cp = copyconfig(node)
        except Abandon:
            raise
        except BaseException as e:
            k.log("copy-mutate", x=x, node=node_name, copied=False, exc=type(e).__name__, graph_same=True, changed=0)
            return
        changed = 0
        for name, v in sorted(cp.__xpm__.values.items()):
            if isinstance(v, list) and v:
                v.append(v[0])
                changed += 1
            elif isinstance(v, dict) and v:
                v["zz-added"] = next(iter(v.values()))
                changed += 1
        same = serialize(task) == st.params0.get(x)
        k.count("probe:copy-then-inplace-change")
        k.log("copy-mutate", x=x, node=node_name, copied=True, changed=changed, graph_same=same)
        return
    elif kind == "identifier":
        # interleaved identifier request (no mutation)
        _ = node.__xpm__.identifier.all.hex()
        k.log("ident-request", x=x, node=node_name)
        return
    else:
        raise AssertionError(kind)
    try:
        action()
    except BaseException as e:
        from .kernel import Abandon

        if isinstance(e, Abandon):
            raise
        raised = type(e).__name__
    after = snapshot_identity(task)
    k.count("probe:mutation-attempt-%s" % kind)
    k.log("mutate", x=x, node=node_name, cls=type(node).__name__.split(".")[0], kind=kind, raised=raised,
          ident_same=before["ident"] == after["ident"] == st.ident0.get(x), path_same=before["path"] == after["path"] == st.path0.get(x))


def on_submit(runner, st, x, task):
    """Called right after submit() returned for the first submission of x."""
    if not hasattr(st, "ident0"):
        st.ident0, st.path0, st.params0 = {}, {}, {}
    ident = snapshot_identity(task)
    st.ident0[x] = ident["ident"]
    st.path0[x] = ident["path"]
    st.params0[x] = serialize(task)


def check_params(runner, jp):
    """At launch: what the process will load vs. what was identified at submit."""
    w = runner.w
    x = jp.x
    if x is None:
        return
    for st in runner.states.values():
        p0 = getattr(st, "params0", {}).get(x)
        if p0 is None:
            continue
        job = st.jobs.get(x)
        if job is None or os.path.realpath(str(job.path)) != os.path.realpath(str(jp.script.parent)):
            continue
        try:
            with open(jp.script.parent / "params.json") as f:
                got = normalize(json.load(f)["objects"])
        except Exception as e:
            runner.k.log("params-check", x=x, equal=False, error=type(e).__name__)
            return
        equal = got == p0
        runner.k.count("probe:params-compared-at-launch")
        diff = None
        if not equal:
            diff = [(a, b) for a, b in zip(got, p0) if a != b][:1]
        runner.k.log("params-check", x=x, equal=equal, diff=json.dumps(diff)[:400] if diff else None)
        return
