"""Engine S: execute one simulated run and evaluate the oracles."""
import hashlib
import json
import os

from . import oracles, workload
from .runner import Runner

# oracles evaluated for each property's check (own first), others incidental
OWN = {
    "C04": ["C04"], "C05": ["C05"], "C06": ["C06"], "C07": ["C07"], "C08": ["C08"], "C09": ["C09"],
    "C11": ["C11"], "C14": ["C14"], "C16": ["C16"], "C19": ["C19"], "C20": ["C20"],
}
INCIDENTAL = {
    "C04": ["C05", "C06"], "C05": ["C04", "C06"], "C06": ["C04", "C05"], "C07": ["C04", "C06"],
    "C08": ["C04", "C05", "C06", "C09"], "C09": ["C04", "C05", "C06", "C08"],
    "C11": ["C04", "C05"], "C14": ["C04"], "C16": ["C04", "C05"], "C19": [], "C20": [],
}

FAULT_PREFIX = "fault:"


def abstract_states(events):
    """Distinct (job states x running bodies) tuples seen in the run."""
    states = {}
    running = set()
    seen = set()
    for ev in events:
        k = ev[4]
        if k == "state":
            states[(ev[2], ev[5]["x"])] = ev[5]["new"]
        elif k == "body-start":
            running.add(ev[5]["x"])
        elif k == "body-end":
            running.discard(ev[5]["x"])
        else:
            continue
        t = (tuple(sorted((str(a), str(b), s) for (a, b), s in states.items())), tuple(sorted(running)))
        seen.add(hashlib.sha1(repr(t).encode()).hexdigest()[:12])
    return sorted(seen)


def probes(events):
    """'This rare condition was hit' counters derived from the event log."""
    out = {}

    def hit(name):
        out["probe:" + name] = out.get("probe:" + name, 0) + 1

    running = 0
    for ev in events:
        k, p = ev[4], ev[5]
        if k == "state":
            if p["old"] == "READY" and p["new"] == "WAITING":
                hit("start-aborted-lock-error")
            elif p.get("adopt"):
                hit("adopted-running-process")
            elif p["where"] == "dependencychanged" and p["new"] == "ERROR":
                hit("cancelled-by-failed-dependency")
            elif p["where"] == "dependencychanged" and p["new"] == "READY" and p["old"] == "READY":
                hit("notified-while-starting")
        elif k == "flock-blocked":
            hit("token-lock-contended" if p["path"].endswith("token.lock") else ("job-lock-contended" if p["path"].endswith(".lock") and "/jobs/" in p["path"] else "experiment-lock-contended"))
        elif k == "submit-return" and p.get("dup") and p.get("first_state") == "ERROR":
            hit("resubmit-after-error")
        elif k == "spawn" and p.get("done"):
            hit("launched-with-marker-present")
        elif k == "body-start":
            running += 1
        elif k == "body-end":
            running -= 1
        elif k == "proc-killed" and p.get("kind") == "sched" and running > 0:
            hit("scheduler-died-while-jobs-run")
        elif k == "submit-call" and p.get("pidfile_alive"):
            hit("submitted-while-running-elsewhere")
        elif k == "cli-rmtree":
            hit("cli-removed-folder")
        elif k == "observer-died":
            hit("observer-died")
    return out


def measure_lines(prop, seed, scn, replay, max_steps):
    """Traced line events executed by each simulated process when nobody crashes
    (forked child: identical pre-state, discarded afterwards)."""
    import copy
    from . import main as M

    probe = copy.deepcopy(scn)
    probe.setdefault("cfg", {})["trace"] = True
    for p in probe["procs"]:
        p.pop("crash", None)

    def run():
        from . import world

        world.install()
        r = Runner(probe, seed, replay=replay, max_steps=max_steps)
        try:
            r.run()
            fin = r.final()
            return {i: pr["lines"] for i, pr in fin["procs"].items()}
        finally:
            r.w.cleanup()

    return M.in_child(run, timeout=25)


def resolve_line_crash(prop, seed, scn, replay, max_steps):
    need = [i for i, p in enumerate(scn.get("procs", [])) if "line_frac" in ((p.get("crash") or {}).get("trigger") or {})]
    if not need:
        return scn
    import copy

    scn = copy.deepcopy(scn)
    lines = measure_lines(prop, seed, scn, replay, max_steps)
    for i in need:
        trig = scn["procs"][i]["crash"]["trigger"]
        n = int((lines or {}).get(str(i), 0) or 0) if isinstance(lines, dict) and "harness" not in lines else 0
        if n <= 0:
            scn["procs"][i]["crash"]["trigger"] = {"step": 10 ** 9}
        else:
            scn["procs"][i]["crash"]["trigger"] = {"line": 1 + min(n - 1, int(trig["line_frac"] * n)), "of": n}
    scn["cfg"]["trace"] = True
    return scn


def execute(prop, seed, scn=None, replay=None, full=False, tier="quick", max_steps=20000, extra=None):
    if scn is None:
        scn = workload.generate(prop, seed, tier)
        if extra and extra.get("sweep_line") is not None:
            # line sweep: same workload and schedule, crash point enumerated
            import copy

            scn = copy.deepcopy(scn)
            victim = extra.get("victim", 0)
            scn["procs"][victim]["crash"] = {"sig": extra.get("sig", "KILL"), "trigger": {"line": extra["sweep_line"], "of": extra.get("of")}}
            scn["cfg"]["trace"] = True
            scn["cfg"]["preempt"] = 0
    scn = resolve_line_crash(prop, seed, scn, replay, max_steps)
    r = Runner(scn, seed, replay=replay, max_steps=max_steps)
    try:
        status = r.run()
        if r.k.harness_exc:
            return {"harness": "simulator failure: " + r.k.harness_exc, "seed": seed}
        final = r.final()
        events = r.k.events
        own = OWN[prop]
        if os.environ.get("VERIF_DEBUG_ORACLES"):
            own = os.environ["VERIF_DEBUG_ORACLES"].split(",")
        viol = oracles.evaluate(own, scn, events, final)
        inc = {}
        for v in oracles.evaluate(INCIDENTAL.get(prop, []), scn, events, final):
            key = "%s:%s" % (v["prop"], v["cls"])
            inc[key] = inc.get(key, 0) + 1
        counters = dict(r.k.counters)
        for name, n in probes(events).items():
            counters[name] = counters.get(name, 0) + n
        nfaults = sum(v for k, v in counters.items() if k.startswith(FAULT_PREFIX))
        nspawn = sum(1 for ev in events if ev[4] == "spawn")
        res = {
            "seed": seed,
            "status": status,
            "steps": r.k.steps,
            "now": r.k.now,
            "violations": viol,
            "incidental": inc,
            "counters": counters,
            "shape": r.k.shape.hexdigest()[:16],
            "digest": r.k.digest(),
            "nontrivial": bool(nspawn >= 2 or nfaults >= 1),
            "fault_free": nfaults == 0,
            "astates": abstract_states(events),
            "nevents": len(events),
        }
        if full or viol:
            res["scn"] = scn
            res["choices"] = r.k.choices
        if full:
            from .main import fmt_trace

            res["sample"] = {"seed": seed, "workload": scn, "status": status, "steps": r.k.steps,
                             "first_events": fmt_trace(events[:40], 40)}
            res["trace"] = fmt_trace(events, 6000)
            res["final"] = final
        elif viol:
            from .main import fmt_trace

            res["trace"] = fmt_trace(events, 120)
        return res
    finally:
        r.w.cleanup()
