"""Property checks on engine S: seeded search, triage against known findings,
shrinking, replay verification, evidence."""
import json
import os
import subprocess
import sys
import time

from . import main as M
from .evidence import write_evidence

VERIF = M.VERIF

RUNS = {
    "quick": {"C04": 3500, "C05": 2500, "C06": 3000, "C07": 2500, "C08": 3000, "C09": 2400,
              "C11": 2000, "C14": 1500, "C16": 1500, "C19": 1500, "C20": 800},
    "thorough": {"C04": 120000, "C05": 120000, "C06": 150000, "C07": 120000, "C08": 90000, "C09": 90000,
                 "C11": 60000, "C14": 60000, "C16": 60000, "C19": 60000, "C20": 30000},
}
WALL = {"quick": 300.0, "thorough": 900.0}

COMPONENTS = {
    "real": [
        "experimaestro.scheduler.base (Scheduler, experiment, Job, JobDependency, JobLock, SignalHandler)",
        "experimaestro.scheduler.dependencies", "experimaestro.locking", "experimaestro.utils.asyncio.asyncThreadcheck",
        "experimaestro.tokens (CounterToken, TokenFile, CounterTokenDependency/Lock, ProcessCounterToken)",
        "experimaestro.commandline.CommandLineJob (aio_process, prepare, aio_run)", "experimaestro.scriptbuilder.PythonScriptBuilder",
        "experimaestro.launchers.direct.DirectLauncher", "experimaestro.connectors.local (LocalConnector, LocalProcessBuilder, LocalProcess, PsutilProcess, InterProcessLock)",
        "experimaestro.connectors.Process.fromDefinition", "experimaestro.ipc.IPCom/ipcom",
        "experimaestro.core.objects (submit, seal, updatedependencies, outputjson, fromParameters)",
        "experimaestro.run (TaskRunner.run/cleanup/handle_error, run)", "fasteners.InterProcessLock.acquire/release retry logic",
        "asyncio tasks/futures/locks/conditions/events", "real files on tmpfs (markers, pid files, token files, symlink indexes)",
    ],
    "stub": [
        "fcntl record locks -> per-path owner table (POSIX per-process semantics)", "subprocess.Popen -> simulated job process running the generated script's TaskRunner",
        "psutil.Process -> simulated process table", "threading.Thread/Lock -> baton actors / SimMutex", "asyncio selector loop + SchedulerCentral.run -> SimLoop (one handle per step, threadsafe inbox)",
        "watchdog Observer/inotify -> directory diff after every step, ordered per-observer queue", "signal.signal -> per-process handler table",
        "task bodies -> parked stub deciding the outcome from the workload", "TaskOutputsWorker, notifications Reporter, web server -> inert",
        "time.time in scheduler.base -> virtual clock",
    ],
}


SWEEP = {  # line-sweep crash enumeration: (bases, stride) per tier, victim process index
    "C11": {"quick": (1, 6), "thorough": (10, 1), "victim": 0},
    "C16": {"quick": (1, 6), "thorough": (10, 1), "victim": 0},
    "C20": {"quick": (2, 1), "thorough": (40, 1), "victim": 2},
}


def sweep_tasks(prop, base_seed, tier, first_idx):
    """For a few (workload, schedule) pairs enumerate every traced line of the victim
    process as the crash point (DESIGN 4/C11 'line sweep')."""
    from . import engine_s, workload

    nb, stride = SWEEP[prop][tier]
    victim = SWEEP[prop]["victim"]
    tasks, info = [], []
    idx = first_idx
    for j in range(nb):
        seed = M.seed_for(base_seed, prop + "-sweep", j)
        scn = workload.generate(prop, seed, tier)
        if victim >= len(scn["procs"]):
            continue
        scn["cfg"]["trace"] = True
        scn["cfg"]["preempt"] = 0
        lines = M.in_child(lambda: engine_s.measure_lines(prop, seed, scn, None, 20000), timeout=40)
        n = int(lines.get(str(victim), 0)) if isinstance(lines, dict) and "harness" not in lines else 0
        sig = ["KILL", "TERM", "INT"][j % 3] if prop == "C11" else "KILL"
        info.append({"seed": seed, "victim_lines": n, "stride": stride, "sig": sig})
        for line in range(1, n + 1, stride):
            tasks.append((idx, seed, {"sweep_line": line, "of": n, "victim": victim, "sig": sig}))
            idx += 1
    return tasks, info


def run_check(prop, tier, base_seed, args):
    t0 = time.time()
    nruns = args.runs or RUNS[tier][prop]
    nworkers = args.workers or min(16, os.cpu_count() or 4)
    wall = args.wall or WALL[tier]
    tasks = [(idx, M.seed_for(base_seed, prop, idx), None) for idx in range(nruns)]
    sweep_info = None
    if prop in SWEEP and not args.runs:
        st, sweep_info = sweep_tasks(prop, base_seed, tier, nruns)
        # interleave so that a wall-clock cut-off trims both parts alike
        tasks = tasks + st
    det = None
    if tier == "thorough" and not args.runs:
        # determinism self-test on a sample: same seed twice in separate children
        from concurrent.futures import ThreadPoolExecutor

        sample = [t for t in tasks[:24]]

        def dig(t):
            r = M.in_child(lambda: M.execute_run(prop, t[1], tier=tier, extra=t[2]))
            return r.get("digest") if isinstance(r, dict) else None

        with ThreadPoolExecutor(max_workers=8) as ex:
            d1 = list(ex.map(dig, sample))
            d2 = list(ex.map(dig, sample))
        det = {"seeds": len(sample), "identical": sum(1 for a, b in zip(d1, d2) if a is not None and a == b)}
        if det["identical"] != det["seeds"]:
            print("HARNESS-NONDET property=%s: %d of %d sampled seeds gave different event-log digests when run twice" % (prop, det["seeds"] - det["identical"], det["seeds"]))
            return 2
    total = M.run_pool(prop, base_seed, len(tasks), tier, nworkers, wall, tasks=tasks)
    known = M.load_known()
    rc = 0
    lines = []
    new_viol = []
    known_hits = {}
    for rec in total["violations"]:
        for v in rec["violations"]:
            e = M.match_known(v, known)
            if e is not None:
                known_hits.setdefault(e["id"], [e, 0, rec["seed"]])
                known_hits[e["id"]][1] += 1
            else:
                new_viol.append((rec, v))
    for eid, (e, n, seed) in sorted(known_hits.items()):
        lines.append("KNOWN-FINDING: property=%s %s [%s] (class %s, %d matching violations in the %d recorded violating runs; e.g. seed %d)"
                     % (prop, e["description"], eid, e["class"], n, len(total["violations"]), seed))
    reported = set()
    for rec, v in new_viol:
        key = (v["cls"], json.dumps(v["sig"], sort_keys=True))
        if key in reported or len(reported) >= 3:
            continue
        reported.add(key)
        path, ok, note = report_violation(prop, rec, v, tier)
        if ok:
            lines.append("VIOLATION property=%s replay=%s" % (prop, path))
            lines.append("  class=%s sig=%s" % (v["cls"], json.dumps(v["sig"], sort_keys=True)))
            lines.append("  " + v["detail"])
            rc = 1
        else:
            lines.append("HARNESS-NONDET property=%s seed=%d: %s" % (prop, rec["seed"], note))
            rc = max(rc, 2) if rc != 1 else 1
    if total["harness"] or total["worker_failures"]:
        for h in total["harness"][:5]:
            lines.append("HARNESS-LIMIT property=%s seed=%d what=%s %s" % (prop, h["seed"], h["what"], h.get("tb", "")[-400:]))
        if total["worker_failures"]:
            lines.append("HARNESS-ERROR %d worker(s) failed" % total["worker_failures"])
        if rc == 0:
            rc = 2
    if total["runs"] == 0 and rc == 0:
        lines.append("HARNESS-ERROR no run completed")
        rc = 2
    wall_s = time.time() - t0
    if not args.no_evidence:
        extra = None
        if det is not None:
            extra = {"determinism_selftest": det}
        if sweep_info is not None:
            extra = dict(extra or {})
            extra.update({"line_sweeps": sweep_info,
                          "line_sweep_note": "for each listed (workload, schedule) seed every stride-th traced line of the victim process was used as the crash point (stride 1 = the crash-point axis is enumerated for that schedule)"})
        write_evidence(prop, tier, base_seed, total, wall_s, len(new_viol), "exploration", COMPONENTS,
                       known_hits={k: v[1] for k, v in known_hits.items()}, extra=extra)
    for l in lines:
        print(l)
    print("%s tier=%s seed=%d runs=%d nontrivial_distinct=%d steps=%d violating_runs=%d known=%d wall=%.1fs -> exit %d"
          % (prop, tier, base_seed, total["runs"], len(total["shapes"]), total["steps"], total["nviol"],
             sum(v[1] for v in known_hits.values()), wall_s, rc))
    return rc


def same_violation(res, v):
    if not isinstance(res, dict) or "violations" not in res:
        return None
    for w in res["violations"]:
        if w["prop"] == v["prop"] and w["cls"] == v["cls"] and w["sig"] == v["sig"]:
            return w
    return None


def report_violation(prop, rec, v, tier):
    """Re-run with full trace, shrink, write the replay file, verify the replay in a
    fresh interpreter."""
    seed = rec["seed"]
    res = M.in_child(lambda: M.execute_run(prop, seed, full=True, tier=tier, extra=rec.get("extra")))
    if same_violation(res, v) is None:
        return None, False, "violation did not reproduce from its seed"
    from .shrink import shrink

    # (VERIF_SHRINK_WALL: maintenance knob of tools_seeded.sh; the registered commands do not set it)
    scn, choices, res2 = shrink(prop, seed, res["scn"], res["choices"], v, budget=250, wall=float(os.environ.get("VERIF_SHRINK_WALL", "60")))
    w = same_violation(res2, v)
    os.makedirs(os.path.join(VERIF, "replays"), exist_ok=True)
    path = os.path.join(VERIF, "replays", "%s-%d.json" % (prop, seed))
    rep = {
        "property": prop, "engine": "S", "seed": seed, "workload": scn, "choices": choices,
        "violation": w, "digest": res2["digest"], "steps": res2["steps"],
        "original": {"choices": len(res["choices"]), "steps": res["steps"]},
        "trace": res2.get("trace", [])[-200:],
    }
    with open(path, "w") as f:
        json.dump(rep, f, indent=1)
    # replay in a fresh interpreter with another hash seed
    env = dict(os.environ, PYTHONHASHSEED="12345")
    p = subprocess.run([os.path.join(VERIF, "check"), "replay", path], capture_output=True, text=True, env=env, timeout=120)
    if p.returncode != 1 or "REPLAY-OK" not in p.stdout:
        return path, False, "fresh-interpreter replay differs: rc=%d %s" % (p.returncode, (p.stdout + p.stderr)[-400:])
    return path, True, ""


def replay(rep, verbose=False):
    prop, seed = rep["property"], rep["seed"]
    res = M.in_child(lambda: M.execute_run(prop, seed, scn=rep["workload"], replay=rep["choices"], full=True))
    if "harness" in res:
        print("HARNESS-ERROR replay:", res)
        return 2
    v = rep["violation"]
    w = same_violation(res, v)
    if verbose:
        for l in res.get("trace", [])[-60:]:
            print(l)
    if w is None:
        print("REPLAY-MISMATCH: violation not reproduced; got", json.dumps(res["violations"])[:500])
        return 2
    if res["digest"] != rep["digest"]:
        print("REPLAY-MISMATCH: digest %s != %s" % (res["digest"], rep["digest"]))
        return 2
    print("REPLAY-OK digest=%s" % res["digest"])
    print("VIOLATION property=%s replay=%s" % (prop, "(this file)"))
    print("  class=%s sig=%s" % (w["cls"], json.dumps(w["sig"], sort_keys=True)))
    print("  " + w["detail"])
    return 1
