"""Runs a generated job script and delivers a signal to itself at the n-th traced
line event of experimaestro/run.py or of the task module (engine R).

usage: tracekill.py <script> <n> <SIGNAME> <sitefile>
n = 0: no signal, but the number of traced line events is written to <sitefile>."""
import os
import runpy
import signal
import sys

script, n, signame, sitefile = sys.argv[1], int(sys.argv[2]), sys.argv[3], sys.argv[4]
sig = getattr(signal, "SIG" + signame)
# optional escalation: a second signal n2 traced lines after the first one (TERM, then KILL)
n2, sig2 = (int(sys.argv[5]), getattr(signal, "SIG" + sys.argv[6])) if len(sys.argv) > 6 else (0, None)
count = 0
fired = False
TRACED = ("experimaestro/run.py", "sim/rtasks.py")


at_lock = False


def local(frame, event, arg):
    global count, fired, at_lock
    if event == "line" and not at_lock:
        import linecache

        if "lock.acquire(" in linecache.getline(frame.f_code.co_filename, frame.f_lineno):
            # about to (try to) take the run lock: tell the harness
            at_lock = True
            with open(sitefile + ".atlock", "w") as f:
                f.write("1")
    if event == "line" and not fired:
        count += 1
        if count == n:
            fired = True
            code = frame.f_code
            with open(sitefile, "w") as f:
                f.write("%s:%s+%d\n" % (os.path.basename(code.co_filename), code.co_name, frame.f_lineno - code.co_firstlineno))
            if sig2 is None:
                sys.settrace(None)
            os.kill(os.getpid(), sig)
            return None if sig2 is None else local
    elif event == "line" and sig2 is not None:
        count += 1
        if count == n + n2:
            code = frame.f_code
            with open(sitefile + ".2", "w") as f:
                f.write("%s:%s+%d\n" % (os.path.basename(code.co_filename), code.co_name, frame.f_lineno - code.co_firstlineno))
            os.kill(os.getpid(), sig2)
    return local


def tracer(frame, event, arg):
    fn = frame.f_code.co_filename
    if fn.endswith(TRACED) and frame.f_code.co_name != "<module>":
        return local
    return None


def report():
    if n == 0:
        with open(sitefile, "w") as f:
            f.write("count:%d\n" % count)
    elif sig2 is not None:
        with open(sitefile + ".count", "w") as f:
            f.write("%d\n" % count)


if sig2 is not None:
    # A Python-level signal handler that is invoked while the trace function runs (our own
    # os.kill) is not traced.  Handlers installed by the traced program are wrapped so that they
    # run with tracing enabled: their lines are the kill points of the second signal.
    _signal = signal.signal

    def _traced_signal(signum, handler):
        if callable(handler):
            return _signal(signum, lambda s, f: sys.call_tracing(handler, (s, f)))
        return _signal(signum, handler)

    signal.signal = _traced_signal

import atexit  # noqa: E402

atexit.register(report)
sys.argv = [script]
sys.settrace(tracer)
# (the trace function stays installed when the script ends: the exit-time callbacks of the
# runner - pid file removal, lock release, end-of-job report - are kill points too)
runpy.run_path(script, run_name="__main__")
