"""Runs a generated job script and delivers a signal to itself at the n-th traced
line event of experimaestro/run.py or of the task module (engine R).

usage: tracekill.py <script> <n> <SIGNAME> <sitefile>
n = 0: no signal, but the number of traced line events is written to <sitefile>."""
import os
import runpy
import signal
import sys

script, n, signame, sitefile = sys.argv[1], int(sys.argv[2]), sys.argv[3], sys.argv[4]
sig = getattr(signal, "SIG" + signame)
count = 0
fired = False
TRACED = ("experimaestro/run.py", "sim/rtasks.py")


at_lock = False


def local(frame, event, arg):
    global count, fired, at_lock
    if event == "line" and not at_lock:
        import linecache

        if "lock.acquire(" in linecache.getline(frame.f_code.co_filename, frame.f_lineno):
            # about to (try to) take the run lock: tell the harness
            at_lock = True
            with open(sitefile + ".atlock", "w") as f:
                f.write("1")
    if event == "line" and not fired:
        count += 1
        if count == n:
            fired = True
            code = frame.f_code
            with open(sitefile, "w") as f:
                f.write("%s:%s+%d\n" % (os.path.basename(code.co_filename), code.co_name, frame.f_lineno - code.co_firstlineno))
            sys.settrace(None)
            os.kill(os.getpid(), sig)
            return None
    return local


def tracer(frame, event, arg):
    fn = frame.f_code.co_filename
    if fn.endswith(TRACED) and frame.f_code.co_name != "<module>":
        return local
    return None


def report():
    if n == 0:
        with open(sitefile, "w") as f:
            f.write("count:%d\n" % count)


import atexit  # noqa: E402

atexit.register(report)
sys.argv = [script]
sys.settrace(tracer)
try:
    runpy.run_path(script, run_name="__main__")
finally:
    sys.settrace(None)
