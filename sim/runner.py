"""Runs one scenario under the kernel: plan interpreter for simulated scheduler
processes, fault events, crash tracer, final snapshot."""
import json
import os
import signal as real_signal
import sys
import traceback
from pathlib import Path

from . import world as wmod
from .kernel import Kernel
from .world import World

SIGS = {"KILL": real_signal.SIGKILL, "TERM": real_signal.SIGTERM, "INT": real_signal.SIGINT}

import experimaestro as _xpm  # noqa: E402

REPO_SRC = os.path.realpath(os.path.dirname(_xpm.__file__))
TRACED = {
    os.path.join(REPO_SRC, p)
    for p in (
        "scheduler/base.py",
        "scheduler/dependencies.py",
        "commandline.py",
        "tokens.py",
        "locking.py",
        "run.py",
        "scriptbuilder.py",
        "connectors/local.py",
        "connectors/__init__.py",
        "tools/jobs.py",
        "cli/__init__.py",
        "cli/jobs.py",
        "cli/filter.py",
        "utils/asyncio.py",
    )
}
# functions whose every line is a pre-emption point when tracing is on
PREEMPT_FUNCS = {
    "acquire", "release", "_update", "create", "delete", "aio_run", "aio_start", "aio_submit",
    "on_created", "on_modified", "on_deleted", "run", "__enter__", "__exit__", "watch",
    "dependencychanged", "check", "aio_process", "process", "orphans", "fix_deprecated",
}


class ProcState:
    def __init__(self):
        self.obj = {}      # x -> first task object built in this process
        self.out = {}      # x -> output of first submit
        self.toks = {}
        self.xp = None
        self.jobs = {}     # x -> job of first submission
        self.results = {}
        self.dups = []
        self.parthreads = []     # second user threads of this process ('par' operation)
        self.parouts = []
        self.parx = set()
        self.outids = {}


class Runner:
    def __init__(self, scn, seed, replay=None, rundir=None, max_steps=20000):
        self.scn = scn
        self.seed = seed
        wmod.install()
        self.k = Kernel(seed, replay=replay, max_steps=max_steps)
        rundir = rundir or os.path.join(
            "/dev/shm" if os.path.isdir("/dev/shm") else os.environ.get("TMPDIR", "/tmp"),
            "verif-sim", "r%d-%d" % (os.getpid(), seed & 0xFFFFFFFF))
        import shutil

        shutil.rmtree(rundir, ignore_errors=True)
        os.makedirs(rundir)
        self.w = World(self.k, rundir, scn)
        wmod.W = self.w
        self.k.tracer_for = self.tracer_for
        self.states = {}      # proc index -> ProcState
        self.pids = {}        # proc index -> pid
        self.lingering = set()
        self.linger_release = 0
        self.idle_snaps = []
        self.trace_on = bool(scn.get("cfg", {}).get("trace"))
        self.crash_line = {}  # pid -> (line n, sig)
        self.crash_func = {}  # pid -> [function name, k-th traced line inside it, sig, counter]
        self.preempt = scn.get("cfg", {}).get("preempt", 0)
        self.k.stall_den = scn.get("cfg", {}).get("stall", 0)
        self.k.on_idle.append(self.idle_hook)
        self.w.on_kill.append(self.on_proc_killed)
        if scn.get("cfg", {}).get("c14"):
            from .c14 import check_params

            self.w.on_spawn.append(lambda jp: check_params(self, jp))
        self.extra_idle = []
        self.status = None

    # ------------------------------------------------------------ tracing
    def tracer_for(self, actor):
        if not self.trace_on:
            return None
        return self.global_trace

    def global_trace(self, frame, event, arg):
        code = frame.f_code
        if code.co_filename in TRACED and code.co_name != "<module>":
            return self.local_trace
        return None

    def local_trace(self, frame, event, arg):
        if event != "line":
            return self.local_trace
        k = self.k
        a = k.current
        if a is None:
            return self.local_trace
        pid = a.pid
        proc = self.w.procs.get(pid)
        if proc is None:
            return self.local_trace
        proc.lines += 1
        cl = self.crash_line.get(pid)
        cf = self.crash_func.get(pid)
        if cf is not None and frame.f_code.co_name == cf[0]:
            cf[3] += 1
            if cf[3] == cf[1]:
                cl = (proc.lines, cf[2])
                self.crash_func.pop(pid)
        if cl is not None and proc.lines == cl[0]:
            sys.settrace(None)
            code = frame.f_code
            k.log("crash-at-line", file=os.path.basename(code.co_filename), func=code.co_name,
                  line=frame.f_lineno - code.co_firstlineno, n=proc.lines)
            k.count("fault:crash-at-line")
            self.w.site = "%s:%s+%d" % (os.path.basename(code.co_filename), code.co_name,
                                        frame.f_lineno - code.co_firstlineno)
            self.w.terminate_current(-int(cl[1]))
        if self.preempt and frame.f_code.co_name in PREEMPT_FUNCS:
            if k.flip(1, self.preempt, "pre"):
                k.count("fault:line-preempt")
                k.park()
        return self.local_trace

    # ------------------------------------------------------------ setup
    def setup(self):
        scn, k, w = self.scn, self.k, self.w
        for i, spec in enumerate(scn["procs"]):
            self.schedule_proc(i, spec)
        for jf in scn.get("jobfaults", []):
            self.schedule_jobfault(jf)

    def schedule_proc(self, i, spec):
        k = self.k
        start = spec.get("start") or {"at": "begin"}

        def go():
            self.start_proc(i, spec)

        if "after_exit" in start:
            j = start["after_exit"]

            def guard():
                pid = self.pids.get(j)
                if pid is None:
                    return False
                p = self.w.procs[pid]
                if p.alive:
                    return False
                if start.get("jobs_ended"):
                    return not any(q.kind == "job" and q.alive for q in self.w.procs.values())
                return True

            k.add_event("start-proc-%d" % i, guard, go, priority=bool(start.get("now")))
        elif "after_steps" in start:
            n = start["after_steps"]
            k.add_event("start-proc-%d" % i, lambda: k.steps >= n, go, priority=True)
        elif "after_event" in start:
            self.on_nth_event(start["after_event"], start.get("nth", 1), start.get("delay", 0),
                              "start-proc-%d" % i, go)
        else:
            go()

    def on_nth_event(self, kind, nth, delay, name, fn, match=None):
        """Run fn (kernel event, priority) `delay` steps after the nth event of `kind`."""
        k = self.k
        st = {"n": 0, "at": None}

        def listener(ev):
            if st["at"] is None and ev[4] == kind and (match is None or match(ev)):
                st["n"] += 1
                if st["n"] == nth:
                    st["at"] = k.steps + delay

        k.listeners.append(listener)
        k.add_event(name, lambda: st["at"] is not None and k.steps >= st["at"], fn, priority=True)

    def start_proc(self, i, spec):
        w, k = self.w, self.k
        kind = spec.get("kind", "sched")
        proc = w.new_proc(kind)
        proc.info["index"] = i
        proc.info["xp"] = spec.get("xp")
        self.pids[i] = proc.pid
        st = self.states[i] = ProcState()
        k.log("proc-start", index=i, pid=proc.pid, kind=kind)
        st.variant = spec.get("variant", "old")
        main = {"sched": self.sched_main, "cli": self.cli_main, "audit": self.audit_main,
                "deprecate": self.deprecate_main, "fix": self.fix_main, "relocate": self.relocate_main}[kind]
        proc.main_actor = k.spawn("C:%d" % proc.pid, lambda: main(proc, spec, st), proc.pid, "caller")
        crash = spec.get("crash")
        if crash:
            self.schedule_crash(proc, crash)

    def schedule_crash(self, proc, crash):
        k, w = self.k, self.w
        sig = SIGS[crash.get("sig", "KILL")]
        trig = crash["trigger"]
        pid = proc.pid

        def fire():
            if not proc.alive:
                return
            k.count("fault:sched-crash-%s" % crash.get("sig", "KILL"))
            if sig == real_signal.SIGINT:
                w.signal_process(pid, sig)
            else:
                w.kill_process(pid, sig, where="step")

        if "line" in trig:
            self.crash_line[pid] = (trig["line"], sig)
            self.trace_on = True
        elif "func" in trig:
            self.crash_func[pid] = [trig["func"], trig["k"], sig, 0]
            self.trace_on = True
        elif "step" in trig:
            base = k.steps
            k.add_event("crash-%d" % pid, lambda: k.steps >= base + trig["step"] and proc.alive, fire,
                        priority=True)
        else:
            self.on_nth_event(trig["event"], trig.get("nth", 1), trig.get("delay", 0),
                              "crash-%d" % pid, fire,
                              match=(lambda ev: ev[2] == pid) if trig.get("own", False) else None)

    def schedule_jobfault(self, jf):
        k, w = self.k, self.w
        x, att, sig = jf["x"], jf.get("attempt", 0), SIGS[jf["sig"]]
        when = jf.get("when", "body")
        kind = {"body": "body-start", "start": "runner-start", "spawn": "spawn", "adopted": "state"}[when]
        target = {}

        def match(ev):
            p = ev[5]
            if when == "adopted":
                # a scheduler adopted a running process of an earlier run: that process is the target
                if not p.get("adopt") or (x is not None and p.get("x") != x):
                    return False
                alive = [q.pid for q in w.procs.values() if q.kind == "job" and q.alive and q.x == p.get("x")]
                if not alive:
                    return False
                target["pid"] = alive[0]
                return True
            if x is not None and p.get("x") != x:
                return False
            if when == "body" and p.get("attempt") != att:
                return False
            target["pid"] = ev[2] if when != "spawn" else p.get("jpid")
            return True

        def fire():
            pid = target.get("pid")
            if pid is None or not w.procs[pid].alive:
                return
            if sig == real_signal.SIGKILL:
                w.kill_process(pid, sig, where=when)
            else:
                w.signal_process(pid, sig)

        self.on_nth_event(kind, jf.get("nth", 1), jf.get("delay", 0), "jobfault-%s-%s" % (x, when), fire, match=match)

    # ------------------------------------------------------------ plan interpreter
    def tok(self, st, ti):
        t = st.toks.get(ti)
        if t is None:
            spec = self.scn["tokens"][ti]
            if spec["kind"] == "file":
                from experimaestro.tokens import CounterToken

                t = CounterToken.create("tok%d" % ti, self.w.tokdir / ("tok%d.counter" % ti), spec["total"])
            else:
                from experimaestro.tokens import ProcessCounterToken

                t = ProcessCounterToken(spec["total"])
            st.toks[ti] = t
        return t

    def build(self, st, x):
        from . import simtasks as S

        t = self.scn["tasks"][x]
        kind = t.get("kind", "leaf")
        if kind.startswith("dep-"):
            return self.build_dep(st, x, kind), []
        cls = {"leaf": S.Leaf, "node": S.Node, "wtask": S.WTask, "wnode": S.WNode, "ptask": S.PTask}[kind]
        kwargs = {"x": x}
        if kind == "ptask":
            kwargs["m"] = S.Plain(v=x)
        pre, init, explicit = [], [], []
        # a consumer that hangs a pre-task on an upstream's output wrapper gets a wrapper of its
        # own (marked as output of the same producer): hanging it on the wrapper shared by all
        # consumers would make the identifiers of the *other* consumers depend on build order
        priv = {}
        for u, emb in t.get("deps", []):
            if isinstance(emb, list) and emb[0] == "outpre" and emb[1] not in priv:
                prod = st.obj[emb[1]]
                priv[emb[1]] = prod.__xpm__.mark_output(S.Wrap(src=prod))
        for u, emb in t.get("deps", []):
            raw, out = st.obj[u], st.out[u]
            if emb == "direct":
                kwargs["direct"] = raw
            elif emb == "lst":
                kwargs.setdefault("lst", []).append(raw)
            elif emb == "dmap":
                kwargs.setdefault("dmap", {})["k%d" % u] = raw
            elif emb == "holder":
                kwargs["holder"] = S.Holder(inner=raw)
            elif emb == "wrapped":
                kwargs.setdefault("wrapped", []).append(priv.get(u, out))
            elif emb == "pre":
                pre.append(S.Pre(src=out))
            elif emb == "init":
                init.append(S.Pre(src=out))
            elif emb == "explicit":
                explicit.append(u)
            elif isinstance(emb, list) and emb[0] == "outpre":
                # a pre-task attached to the *output* of upstream emb[1] (a wrapper built after
                # its producer was sealed) that refers to the output of u
                priv[emb[1]].add_pretasks(S.Pre(src=out))
            else:
                raise AssertionError(emb)
        task = cls(**kwargs)
        for name, value in (t.get("tags") or {}).items():
            task.tag(name, value)
        if pre:
            task.add_pretasks(*pre)
        for u in explicit:
            task.add_dependencies(st.obj[u].__xpm__.dependency())
        for ti, c in t.get("tok", []):
            task.add_dependencies(self.tok(st, ti).dependency(c))
        return task, init

    def build_dep(self, st, x, kind):
        """Tasks of the deprecation scenarios: old or new class depending on the process."""
        from . import simtasks as S

        oldv = getattr(st, "variant", "old") == "old"
        cfg = (S.OldCfg if oldv else S.NewCfg)
        if kind == "dep-root":
            return (S.OldDLeaf if oldv else S.DLeaf)(x=x)
        if kind == "dep-param":
            return S.CfgTask(x=x, p=cfg(v=x))
        if kind == "dep-list":
            return S.CfgTask(x=x, pl=[S.NewCfg(v=100 + x), cfg(v=x)])
        if kind == "dep-nested":
            return S.CfgTask(x=x, ph=S.CfgHolder(c=cfg(v=x)))
        if kind == "dep-plain":
            return S.CfgTask(x=x, p=S.NewCfg(v=x))
        raise AssertionError(kind)

    def submit(self, st, x, dup=False):
        k, w = self.k, self.w
        if not dup:
            for u, _ in self.scn["tasks"][x].get("deps", []):
                if u not in st.obj:
                    self.submit(st, u)
            if x in st.obj:
                return
        task, init = self.build(st, x)
        xp = st.xp
        before = len(xp.scheduler.jobs)
        k.log("submit-call", x=x, dup=dup, **self.pid_status(x))
        try:
            out = task.submit(init_tasks=init) if init else task.submit()
        except BaseException as e:
            k.log("submit-raise", x=x, exc=type(e).__name__, msg=str(e)[:200])
            raise
        job = task.__xpm__.job
        first = st.jobs.get(x)
        registered = xp.scheduler.jobs.get(job.identifier)
        if first is None and x in st.parx and registered is not None and registered is not job:
            # the other user thread's submission of the same configuration was registered first:
            # the live job of x is that one
            w.jobx[id(job)] = x
            live = registered
        else:
            live = job
        info = dict(
            x=x, dup=dup, ident=job.identifier[:12], oid=self.oid(st, out), out_none=out is None,
            njobs_before=before, njobs_after=len(xp.scheduler.jobs),
            registered_is_this=registered is job,
            has_future=getattr(job, "_future", None) is not None,
        )
        job = live
        if first is None:
            st.obj[x], st.out[x], st.jobs[x] = task, out, job
            if getattr(st, "mode", "normal") == "normal" or x not in w.jobdir:
                # (a dry-run / generate-only run schedules nothing; the job directory of x is the one
                # the normal runs use)
                w.register_job(x, job)
            w.jobdir_variant.setdefault(getattr(st, "variant", "old"), {})[x] = str(job.path)
            if self.scn.get("cfg", {}).get("c14"):
                from .c14 import on_submit

                on_submit(self, st, x, task)
        else:
            w.jobx[id(job)] = x
            info["same_output"] = out is st.out[x]
            info["first_state"] = first.state.name
            st.dups.append((x, task, out, job))
            if registered is job or info["has_future"]:
                # re-submission accepted (first job was in ERROR): this is now the live job
                st.jobs[x] = job
                st.obj[x], st.out[x] = task, out
        k.log("submit-return", **info)

    def oid(self, st, out):
        """Small number standing for the identity of an object returned by submit (id() itself
        would differ from one execution to the next)."""
        return st.outids.setdefault(id(out), len(st.outids))

    def par_submit(self, st, x):
        """Body of a second user thread of the process: submits the configuration of task x
        (a task without upstream) while the main thread goes on with its plan."""
        k, w = self.k, self.w
        task, init = self.build(st, x)
        k.log("par-submit-call", x=x)
        try:
            out = task.submit(init_tasks=init) if init else task.submit()
        except Exception as e:
            k.log("par-submit-raise", x=x, exc=type(e).__name__, msg=str(e)[:200])
            return
        job = task.__xpm__.job
        w.jobx.setdefault(id(job), x)
        st.parouts.append((task, out, job))
        k.log("par-submit-return", x=x, oid=self.oid(st, out), out_none=out is None, has_future=getattr(job, "_future", None) is not None,
              registered_is_this=st.xp.scheduler.jobs.get(job.identifier) is job)

    def pid_status(self, x):
        """State of the job's pid file / process as an outside observer sees it."""
        w = self.w
        d = w.jobdir.get(x)
        alive = [p.pid for p in w.procs.values() if p.kind == "job" and p.x == x and p.alive]
        st = "unknown"
        pid = None
        if d is not None:
            name = os.path.basename(os.path.dirname(d)).rsplit(".", 1)[-1]
            pp = os.path.join(d, name + ".pid")
            if not os.path.isfile(pp):
                st = "none"
            else:
                try:
                    with open(pp) as f:
                        txt = f.read()
                    pid = json.loads(txt)["pid"] if txt else None
                    st = "ok" if txt else "empty"
                except Exception:
                    st = "garbled"
        return {"pidfile": st, "pidfile_alive": bool(pid in alive) if pid is not None else False, "alive": alive,
                "done": w.marker_exists(x, "done")}

    def do_op(self, proc, st, op):
        k, w = self.k, self.w
        name = op[0]
        if name == "submit":
            self.submit(st, op[1])
        elif name in ("dup", "resubmit"):
            if op[1] not in st.obj:
                self.submit(st, op[1])
            else:
                self.submit(st, op[1], dup=True)
        elif name == "await-final":
            # the caller watches job.state (public attribute) instead of calling wait(): it goes on
            # as soon as the state is final, possibly before the scheduler has finished with the job
            job = st.jobs.get(op[1])
            if job is not None:
                k.wait_until(lambda: job.state.finished())
                k.log("state-seen-final", x=op[1], state=job.state.name)
        elif name == "wait":
            x = op[1]
            job = st.jobs.get(x)
            if job is None or getattr(job, "_future", None) is None:
                return
            k.log("job-wait-call", x=x)
            r = job.wait()
            st.results[x] = r.name
            k.log("job-wait-return", x=x, result=r.name, state=job.state.name,
                  done=w.marker_exists(x, "done"))
        elif name == "xpwait":
            k.log("xp-wait-call")
            try:
                st.xp.wait()
                k.log("xp-wait-return", exc=None, unfinished=st.xp.unfinishedJobs,
                      states=self.job_states(st))
            except Exception as e:
                k.log("xp-wait-return", exc=type(e).__name__, unfinished=st.xp.unfinishedJobs,
                      states=self.job_states(st))
        elif name == "raise":
            kind = op[1] if len(op) > 1 else "UserError"
            k.log("user-raise", exc=kind)
            k.count("probe:block-left-by-%s" % kind)
            if kind == "SystemExit":
                raise SystemExit(1)         # (what experiments/cli.py does itself inside the block)
            if kind == "KeyboardInterrupt":
                raise KeyboardInterrupt()
            raise UserError("raised in experiment block")
        elif name == "yield":
            for _ in range(op[1] if len(op) > 1 else 1):
                k.park()
        elif name == "linger":
            self.linger(proc)
        elif name == "par":
            from .world import SimThread

            x = op[1]
            st.parx.add(x)
            k.count("probe:concurrent-user-submit")
            t = SimThread(target=lambda: self.par_submit(st, x), name="user-par-%d" % x)
            t.start()
            st.parthreads.append(t)
        elif name == "mutate":
            from .c14 import do_mutate

            do_mutate(self, st, op)
        else:
            raise AssertionError(op)

    def job_states(self, st):
        return {str(x): j.state.name for x, j in sorted(st.jobs.items())}

    def linger(self, proc):
        """Stay alive (inside the experiment) until the rest of the world is
        quiescent, so that 'idle' token state can be observed."""
        k = self.k
        self.lingering.add(proc.pid)
        gen = self.linger_release
        k.log("linger")
        k.park(lambda: self.linger_release > gen)
        self.lingering.discard(proc.pid)

    def idle_hook(self):
        for f in self.extra_idle:
            if f():
                return True
        if self.scn.get("cfg", {}).get("audit") and not getattr(self, "audited", False):
            if not any(p.alive and p.kind in ("sched", "audit") for p in self.w.procs.values()) and \
                    not any(p.alive and p.kind == "job" for p in self.w.procs.values()):
                self.audited = True
                self.start_proc(len(self.scn["procs"]) + 100, {"kind": "audit"})
                return True
        live = [p for p in self.lingering if self.w.procs[p].alive]
        if live:
            snap = {}
            for i, pid in self.pids.items():
                if pid in live:
                    snap[str(i)] = self.snapshot_proc(i)
            self.idle_snaps.append({"step": self.k.steps, "procs": snap, "tokfiles": self.token_files()})
            self.k.log("idle-snapshot", n=len(live))
            self.linger_release += 1
            return True
        return False

    def token_files(self):
        out = {}
        td = self.w.tokdir
        if td.is_dir():
            for d in sorted(td.iterdir()):
                out[d.name] = sorted(p.name for p in d.glob("*.token"))
        return out

    def snapshot_proc(self, i):
        st = self.states[i]
        jobs = {}
        for x, j in sorted(st.jobs.items()):
            f = getattr(j, "_future", None)
            jobs[str(x)] = {
                "state": j.state.name,
                "future_done": bool(f is not None and f.done()),
                "result": (f.result(0).name if f.exception(0) is None else "EXC:" + type(f.exception(0)).__name__)
                if f is not None and f.done() else None,
                "unsatisfied": j.unsatisfied,
            }
            if f is not None and f.done() and f.exception(0) is not None:
                jobs[str(x)]["exc_tb"] = short_tb(f.exception(0))
        toks = {}
        for ti, t in sorted(st.toks.items()):
            toks[str(ti)] = {"available": t.available, "total": getattr(t, "total", getattr(t, "count", None))}
        xp = st.xp
        return {
            "jobs": jobs,
            "tokens": toks,
            "unfinished": getattr(xp, "unfinishedJobs", None) if xp is not None else None,
            "failed": sorted(self.w.k.oid(j, "j") for j in getattr(xp, "failedJobs", {}).values()) if xp is not None else None,
        }

    def on_proc_killed(self, proc):
        if proc.kind == "fix":
            self.k.log("fix-killed", victim=proc.pid, tree=self.tree_snapshot())
        if proc.kind == "sched" and proc.info.get("xp"):
            self.k.log("index", xp=proc.info["xp"], when="killed", victim=proc.pid,
                       snap=self.index_snapshot(proc.info["xp"]))

    def all_rels(self):
        return {str(x): self.rel_of(x) for x in sorted(self.w.jobdir)}

    def run_orphans(self):
        """Output of the real `experimaestro orphans <ws>` command (read-only)."""
        import contextlib
        import io

        import experimaestro.cli as xcli

        ws = self.w.ws
        if not (ws / ".__experimaestro__").is_file():
            return None
        buf = io.StringIO()
        try:
            with contextlib.redirect_stdout(buf):
                xcli.orphans.callback(path=ws, clean=False, size=False, show_all=False, ignore_old=False)
        except BaseException as e:
            return {"error": "%s: %s" % (type(e).__name__, e)}
        lines = [l.strip() for l in buf.getvalue().splitlines() if l.strip()]
        return {"orphans": [l for l in lines if not l.endswith("jobs are not orphans")], "raw": lines[-3:]}

    def index_snapshot(self, name):
        """Symlink index of an experiment as seen on disk: {rel: link target}."""
        base = self.w.ws / "xp" / name
        out = {}
        for sub in ("jobs", "jobs.bak"):
            d = base / sub
            if not d.is_dir():
                out[sub] = None
                continue
            links = {}
            for p in sorted(d.glob("*/*")):
                if p.is_symlink():
                    links["%s/%s" % (p.parent.name, p.name)] = os.readlink(p)
                else:
                    links["%s/%s" % (p.parent.name, p.name)] = "<not a link>"
            out[sub] = links
        jd = self.w.ws / "jobs"
        out["dirs"] = sorted("%s/%s" % (p.parent.name, p.name) for p in jd.glob("*/*") if p.is_dir()) if jd.is_dir() else []
        return out

    def rel_of(self, x):
        d = self.w.jobdir.get(x)
        if d is None:
            return None
        return "%s/%s" % (os.path.basename(os.path.dirname(d)), os.path.basename(d))

    def sched_main(self, proc, spec, st):
        from experimaestro import experiment

        k, w = self.k, self.w
        exc = None
        try:
            mode = spec.get("mode", "normal")
            st.mode = mode
            kw = {}
            if mode != "normal":
                from experimaestro.scheduler.workspace import RunMode

                kw["run_mode"] = {"generate": RunMode.GENERATE_ONLY, "dry": RunMode.DRY_RUN}[mode]
                k.count("probe:run-mode-%s" % mode)
            k.log("xp-enter-call", xp=spec["xp"], mode=mode)
            with experiment(w.ws, spec["xp"], **kw) as xp:
                st.xp = xp
                k.log("xp-entered", xp=spec["xp"])
                for op in spec["plan"]:
                    self.do_op(proc, st, op)
                for t in st.parthreads:
                    t.join()
                k.log("xp-block-end")
            k.log("xp-exit", exc=None, states=self.job_states(st))
            k.log("index", xp=spec["xp"], when="exit", snap=self.index_snapshot(spec["xp"]),
                  rels={str(x): self.rel_of(x) for x in st.jobs}, dirs={str(x): self.w.jobdir.get(x) for x in st.jobs})
        except BaseException as e:
            exc = e
            if isinstance(e, wmod_abandon()):
                raise
            k.log("xp-exit", exc=type(e).__name__, msg=str(e)[:200], states=self.job_states(st),
                  tb=short_tb(e))
            k.log("index", xp=spec["xp"], when="exit", snap=self.index_snapshot(spec["xp"]),
                  rels={str(x): self.rel_of(x) for x in st.jobs}, dirs={str(x): self.w.jobdir.get(x) for x in st.jobs})
        for op in spec.get("after", []):
            try:
                self.do_op(proc, st, op)
            except BaseException as e:
                k.log("after-op-exc", exc=type(e).__name__, msg=str(e)[:200])
        self.finish_proc(proc)

    def finish_proc(self, proc, code=0):
        k, w = self.k, self.w
        me = k.current
        # interpreter shutdown joins non-daemon threads
        k.wait_until(lambda: all(a.done or a.dead or a.daemon or a is me
                                 for a in k.actors if a.pid == proc.pid))
        w.end_process(proc, code)

    def cli_main(self, proc, spec, st):
        from .cliops import run_cli_plan

        try:
            run_cli_plan(self, proc, spec, st)
        finally:
            self.finish_proc(proc)

    def tree_snapshot(self):
        """jobs/ tree: real job folders, symlinks, digests of result files."""
        import hashlib

        jd = self.w.ws / "jobs"
        out = {"dirs": {}, "links": {}, "results": {}}
        if not jd.is_dir():
            return out
        for t in sorted(jd.iterdir()):
            if not t.is_dir():
                continue
            for h in sorted(t.iterdir()):
                rel = "%s/%s" % (t.name, h.name)
                if h.is_symlink():
                    out["links"][rel] = os.readlink(h)
                elif h.is_dir():
                    out["dirs"][rel] = sorted(p.name for p in h.iterdir())
                try:
                    rf = h / "result.txt"
                    if rf.is_file():
                        out["results"][rel] = hashlib.sha1(rf.read_bytes()).hexdigest()[:12]
                except OSError:
                    pass
        return out

    def deprecate_main(self, proc, spec, st):
        """Not a process of the system: the point in the history where the classes become
        deprecated (a new release of the user's code)."""
        from . import simtasks as S

        k = self.k
        for cls in S.DEPRECATABLE:
            xt = cls.__getxpmtype__()
            if not xt.deprecated:
                xt.deprecate()
        k.log("deprecated", tree=self.tree_snapshot(), olddirs={str(x): d for x, d in self.w.jobdir_variant.get("old", {}).items()})
        self.w.end_process(proc, 0)

    def relocate_main(self, proc, spec, st):
        """History step: the workspace has been moved, so the absolute links created by
        earlier link-mode repairs point to where the folders used to be."""
        jd = self.w.ws / "jobs"
        n = 0
        for t in sorted(os.listdir(jd)) if jd.is_dir() else []:
            for h in sorted(os.listdir(jd / t)):
                p = jd / t / h
                if p.is_symlink():
                    target = os.readlink(p)
                    p.unlink()
                    os.symlink("/old-location" + target, p)
                    n += 1
        self.k.log("relocated", links=n)
        self.k.count("fault:workspace-moved")
        self.w.end_process(proc, 0)

    def fix_main(self, proc, spec, st):
        from experimaestro.tools.jobs import fix_deprecated

        k = self.k
        code = 0
        for op in spec["ops"]:
            k.log("fix-call", op=op)
            k.park()
            exc = None
            try:
                fix_deprecated(self.w.ws, op["fix"], op["cleanup"])
            except Exception as e:
                exc = "%s: %s" % (type(e).__name__, str(e)[:160])
                code = 1
                tb = short_tb(e)
            k.log("fix-return", op=op, exc=exc, tb=tb if exc else None, tree=self.tree_snapshot())
        self.w.end_process(proc, code)

    def audit_main(self, proc, spec, st):
        k = self.k
        try:
            for ti, ts in enumerate(self.scn.get("tokens", [])):
                if ts["kind"] == "file":
                    self.tok(st, ti)
            self.linger(proc)
        except BaseException as e:
            if isinstance(e, wmod_abandon()):
                raise
            k.log("audit-exc", exc=type(e).__name__, msg=str(e)[:200])
        self.finish_proc(proc)

    # ------------------------------------------------------------ run
    def run(self):
        k = self.k
        self.setup()
        self.status = k.run()
        return self.status

    def final(self):
        """Snapshot taken by the kernel thread after the run."""
        k, w = self.k, self.w
        procs = {}
        for i, pid in sorted(self.pids.items()):
            p = w.procs[pid]
            a = p.main_actor
            hung = bool(p.alive and a is not None and not a.done and not a.dead)
            info = {
                "pid": pid, "kind": p.kind, "alive": p.alive, "code": p.code, "hung": hung,
                "lines": p.lines,
            }
            if i in self.states:
                try:
                    info.update(self.snapshot_proc(i))
                except Exception as e:  # pragma: no cover
                    info["snapshot_error"] = repr(e)
            procs[str(i)] = info
        jobs_alive = [p.pid for p in w.procs.values() if p.kind == "job" and p.alive]
        parked = []
        for a in k.actors:
            if not a.done and not a.dead and w.procs.get(a.pid) is not None and w.procs[a.pid].alive:
                parked.append([a.name, a.kind])
        return {
            "status": self.status,
            "steps": k.steps,
            "now": k.now,
            "procs": procs,
            "jobs_alive": jobs_alive,
            "tokfiles": self.token_files(),
            "idle_snaps": self.idle_snaps,
            "parked": parked,
            "counters": dict(k.counters),
            "site": getattr(w, "site", None),
            "index": {name: self.index_snapshot(name) for name in sorted({p.get("xp") for p in self.scn["procs"] if p.get("xp")})},
            "rels": self.all_rels(),
            "orphans": self.run_orphans() if self.scn.get("cfg", {}).get("orphans") else None,
            "tree": self.tree_snapshot() if self.scn.get("cfg", {}).get("tree") else None,
            "markers": {str(x): w.marker_exists(x, "done") for x in sorted(w.jobdir)},
            "jobdir_variant": {v: {str(x): d for x, d in m.items()} for v, m in self.w.jobdir_variant.items()},
        }


class UserError(Exception):
    pass


def wmod_abandon():
    from .kernel import Abandon

    return Abandon


def short_tb(e):
    tb = traceback.extract_tb(e.__traceback__)
    return ["%s:%s" % (os.path.basename(f.filename), f.name) for f in tb[-5:]]
