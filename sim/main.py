"""Driver: run a property check (seeded search over simulated runs), replay a
file, self-tests.  Exit codes: 0 held / 1 VIOLATION / 2 harness problem."""
import argparse
import hashlib
import json
import os
import select
import signal
import struct
import sys
import time
import traceback

HERE = os.path.dirname(os.path.abspath(__file__))
VERIF = os.path.dirname(HERE)
sys.path.insert(0, VERIF)

S_PROPS = ["C04", "C05", "C06", "C07", "C08", "C09", "C11", "C14", "C16", "C19", "C20"]
BUDGET = {  # runs per tier
    "quick": {"default": 3000},
    "thorough": {"default": 120000},
}
RUN_TIMEOUT = 30.0


def seed_for(base, prop, idx):
    h = hashlib.sha256(("%d|%s|%d" % (base, prop, idx)).encode()).digest()
    return struct.unpack("<Q", h[:8])[0] >> 1


# ---------------------------------------------------------------- one run (in a forked child)


def fmt_trace(events, n=80):
    out = []
    for ev in events[-n:]:
        out.append("%5d pid=%-4d %-22s %-18s %s" % (ev[0], ev[2], ev[3][:22], ev[4], json.dumps(ev[5], sort_keys=True, default=str)))
    return out


def execute_run(prop, seed, scn=None, replay=None, full=False, tier="quick", extra=None):
    from sim import world, engine_s

    world.install()
    return engine_s.execute(prop, seed, scn=scn, replay=replay, full=full, tier=tier, extra=extra)


def in_child(fn, timeout=RUN_TIMEOUT):
    """Run fn() in a forked child; returns its JSON-able result or a harness record."""
    r, w = os.pipe()
    pid = os.fork()
    if pid == 0:
        code = 0
        try:
            os.close(r)
            try:
                # (no faulthandler.dump_traceback_later here: its watchdog thread does not
                # survive fork and re-arming it in a nested child deadlocks)
                res = fn()
            except BaseException:
                res = {"harness": "exception", "tb": traceback.format_exc()[-3000:]}
            data = json.dumps(res, default=str).encode()
            with os.fdopen(w, "wb") as f:
                f.write(data)
        finally:
            os._exit(code)
    os.close(w)
    chunks = []
    deadline = time.time() + timeout
    timed_out = False
    while True:
        left = deadline - time.time()
        if left <= 0:
            timed_out = True
            break
        rl, _, _ = select.select([r], [], [], left)
        if not rl:
            timed_out = True
            break
        b = os.read(r, 1 << 16)
        if not b:
            break
        chunks.append(b)
    os.close(r)
    if timed_out:
        try:
            os.kill(pid, signal.SIGKILL)
        except ProcessLookupError:
            pass
    os.waitpid(pid, 0)
    if timed_out:
        return {"harness": "timeout"}
    try:
        return json.loads(b"".join(chunks).decode())
    except Exception:
        return {"harness": "bad-output", "raw": b"".join(chunks)[:500].decode(errors="replace")}


# ---------------------------------------------------------------- pool


def worker_main(widx, nworkers, prop, tasks, tier, wfd, deadline):
    from sim import world

    world.install()
    agg = new_agg()
    for idx, seed, extra in tasks[widx::nworkers]:
        if time.time() > deadline:
            agg["skipped"] += 1
            continue
        want_sample = idx < 3
        res = in_child(lambda: execute_run(prop, seed, full=want_sample, tier=tier, extra=extra))
        merge_run(agg, res, idx, seed, prop, tier, extra)
    data = json.dumps(agg, default=list).encode()
    with os.fdopen(wfd, "wb") as f:
        f.write(data)


def new_agg():
    return {
        "runs": 0, "steps": 0, "sim_time": 0.0, "counters": {}, "shapes": [], "astates": [],
        "violations": [], "nviol": 0, "harness": [], "fault_free": 0, "samples": [], "statuses": {},
        "skipped": 0, "incidental": {}, "nontrivial": 0,
    }


def merge_run(agg, res, idx, seed, prop, tier, extra=None):
    if "harness" in res:
        agg["harness"].append({"idx": idx, "seed": seed, "extra": extra, "what": res["harness"], "tb": res.get("tb", "")[-1500:]})
        return
    agg["runs"] += 1
    agg["steps"] += res["steps"]
    agg["sim_time"] += res["now"]
    agg["statuses"][res["status"]] = agg["statuses"].get(res["status"], 0) + 1
    for k, v in res["counters"].items():
        agg["counters"][k] = agg["counters"].get(k, 0) + v
    if res["nontrivial"]:
        agg["shapes"].append(res["shape"])
        agg["nontrivial"] += 1
    agg["astates"].extend(res["astates"])
    if res["fault_free"]:
        agg["fault_free"] += 1
    for k, v in res.get("incidental", {}).items():
        agg["incidental"][k] = agg["incidental"].get(k, 0) + v
    if res.get("sample") is not None and len(agg["samples"]) < 3:
        agg["samples"].append(res["sample"])
    if res["status"] == "cap":
        agg["harness"].append({"idx": idx, "seed": seed, "what": "step-cap"})
    if res["violations"]:
        agg["nviol"] += 1
        if len(agg["violations"]) < 40:
            agg["violations"].append({"idx": idx, "seed": seed, "extra": extra, "violations": res["violations"]})
    if len(agg["shapes"]) > 5000:
        agg["shapes"] = sorted(set(agg["shapes"]))
    if len(agg["astates"]) > 20000:
        agg["astates"] = sorted(set(agg["astates"]))


def run_pool(prop, base_seed, nruns, tier, nworkers, wall_limit, tasks=None):
    deadline = time.time() + wall_limit
    if tasks is None:
        tasks = [(idx, seed_for(base_seed, prop, idx), None) for idx in range(nruns)]
    pipes = []
    for w in range(nworkers):
        r, wfd = os.pipe()
        pid = os.fork()
        if pid == 0:
            os.close(r)
            try:
                worker_main(w, nworkers, prop, tasks, tier, wfd, deadline)
            except BaseException:
                traceback.print_exc()
                os._exit(3)
            os._exit(0)
        os.close(wfd)
        pipes.append((pid, r))
    total = new_agg()
    total["worker_failures"] = 0
    for pid, r in pipes:
        data = b""
        with os.fdopen(r, "rb") as f:
            data = f.read()
        _, st = os.waitpid(pid, 0)
        if st != 0 or not data:
            total["worker_failures"] += 1
            continue
        a = json.loads(data.decode())
        for k in ("runs", "steps", "sim_time", "nviol", "fault_free", "skipped", "nontrivial"):
            total[k] += a[k]
        for k in ("counters", "statuses", "incidental"):
            for kk, v in a[k].items():
                total[k][kk] = total[k].get(kk, 0) + v
        for k in ("shapes", "astates", "violations", "harness"):
            total[k].extend(a[k])
        for s in a["samples"]:
            if len(total["samples"]) < 3:
                total["samples"].append(s)
    total["shapes"] = sorted(set(total["shapes"]))
    total["astates"] = sorted(set(total["astates"]))
    total["violations"].sort(key=lambda v: v["idx"])
    return total


# ---------------------------------------------------------------- known findings


def load_known():
    p = os.path.join(VERIF, "known_findings.json")
    if not os.path.exists(p):
        return []
    with open(p) as f:
        return json.load(f)


def match_known(v, known):
    for e in known:
        if e.get("status") != "open" or e["property"] != v["prop"] or e["class"] != v["cls"]:
            continue
        sig = e.get("signature", {})
        if all(v["sig"].get(k) == val for k, val in sig.items()):
            return e
    return None


# ---------------------------------------------------------------- commands


def cmd_run(args):
    prop = args.prop
    tier = args.tier or os.environ.get("VERIF_TIER") or "quick"
    base_seed = int(os.environ.get("VERIF_SEED", "0")) if args.seed is None else args.seed
    if prop in S_PROPS:
        from sim import check_s

        return check_s.run_check(prop, tier, base_seed, args)
    if prop == "C10":
        from sim import runnercrash

        return runnercrash.run_check(tier, base_seed, args)
    if prop == "C01":
        from sim import histsim

        return histsim.run_check(tier, base_seed, args)
    print("property %s is not claimed (see MANIFEST.json not_applicable)" % prop)
    return 2


def cmd_replay(args):
    with open(args.path) as f:
        rep = json.load(f)
    eng = rep.get("engine", "S")
    if eng == "S":
        from sim import check_s

        return check_s.replay(rep, verbose=True)
    if eng == "R":
        from sim import runnercrash

        return runnercrash.replay(rep)
    if eng == "H":
        from sim import histsim

        return histsim.replay(rep)
    return 2


def cmd_show(args):
    """Debug aid: run one seed of a property profile and print workload, violations, trace."""
    scn = None
    if args.scn:
        with open(args.scn) as f:
            scn = json.load(f)
            scn = scn.get("workload", scn)
    res = in_child(lambda: execute_run(args.prop, args.seed, scn=scn, full=True))
    if "harness" in res:
        print(res)
        return 2
    print(json.dumps(res["scn"]))
    for l in res["trace"][-args.n:]:
        if args.all or " inbox-deliver " not in l:
            print(l)
    print("parked", res["final"]["parked"], "counters", res["final"]["counters"])
    print("status", res["status"], "steps", res["steps"], "digest", res["digest"])
    for v in res["violations"]:
        print("VIOL", v["prop"], v["cls"], json.dumps(v["sig"]), v["detail"])
    return 0


def cmd_selftest(args):
    from sim import selftest

    return selftest.main(args)


def main(argv=None):
    ap = argparse.ArgumentParser(prog="check")
    sub = ap.add_subparsers(dest="cmd", required=True)
    r = sub.add_parser("run")
    r.add_argument("prop")
    r.add_argument("--tier", default=None)
    r.add_argument("--runs", type=int, default=None)
    r.add_argument("--seed", type=int, default=None)
    r.add_argument("--workers", type=int, default=None)
    r.add_argument("--wall", type=float, default=None)
    r.add_argument("--no-evidence", action="store_true")
    p = sub.add_parser("replay")
    p.add_argument("path")
    d = sub.add_parser("show")
    d.add_argument("prop")
    d.add_argument("seed", type=int)
    d.add_argument("-n", type=int, default=400)
    d.add_argument("--all", action="store_true")
    d.add_argument("--scn", default=None)
    s = sub.add_parser("selftest")
    s.add_argument("what")
    s.add_argument("--n", type=int, default=64)
    s.add_argument("--props", default=None)
    args = ap.parse_args(argv)
    if args.cmd == "run":
        return cmd_run(args)
    if args.cmd == "replay":
        return cmd_replay(args)
    if args.cmd == "show":
        return cmd_show(args)
    return cmd_selftest(args)


if __name__ == "__main__":
    sys.exit(main())
