"""Evidence files (/verif/evidence/<id>.json), validated against the schema
shape the harness expects (checked structurally here; jsonschema is not
available in /venv)."""
import json
import os

VERIF = os.path.dirname(os.path.dirname(os.path.abspath(__file__)))

RULE_S = (
    "Each evaluation is one simulated run: a seeded workload (task DAG, tokens, per-process plans, faults) from "
    "hash(VERIF_SEED, property, run index), executed with the real experimaestro code under the baton kernel whose "
    "PRNG (same seed) decides every interleaving, delay and fault. A run is non-trivial if it launched >= 2 job "
    "processes or fired >= 1 fault; distinct = distinct event-log shape digests (sequence of (actor kind, event kind)) "
    "among non-trivial runs."
)


def write_evidence(prop, tier, seed, total, wall_s, nviol, level, components, known_hits=None, rule=None, extra=None,
                   exhaustive=None):
    os.makedirs(os.path.join(VERIF, "evidence"), exist_ok=True)
    faults = {k[len("fault:"):]: v for k, v in sorted(total["counters"].items()) if k.startswith("fault:")}
    probes = {k[len("probe:"):]: v for k, v in sorted(total["counters"].items()) if k.startswith("probe:")}
    other = {k: v for k, v in sorted(total["counters"].items()) if not k.startswith(("fault:", "probe:"))}
    runs = total["runs"]
    cov = {
        "evaluations": int(runs),
        "distinct_nontrivial": int(len(total["shapes"])),
        "rule": rule or RULE_S,
        "samples": total["samples"][:3] if total["samples"] else [{"note": "no sample captured"}],
        "runs_per_hour": int(runs / wall_s * 3600) if wall_s > 0 else 0,
        "seeds": "run seeds = sha256(VERIF_SEED|property|index) for index in [0, %d)" % (runs + total.get("skipped", 0) + len(total["harness"])),
        "sim_steps": int(total["steps"]),
        "sim_time_s": round(total["sim_time"], 3),
        "faults_fired": faults,
        "probes": probes,
        "other_counters": other,
        "abstract_states": len(total["astates"]),
        "nontrivial_runs": int(total.get("nontrivial", 0)),
        "fault_free_runs": int(total["fault_free"]),
        "fault_injecting_runs": int(runs - total["fault_free"]),
        "run_statuses": total["statuses"],
        "incidental": total["incidental"],
        "harness_limits": len(total["harness"]),
        "skipped_for_wall_clock": total.get("skipped", 0),
        "violating_runs": total["nviol"],
        "known_finding_hits": known_hits or {},
        "components": components,
    }
    if exhaustive is not None:
        cov["exhaustive"] = bool(exhaustive)
    if extra:
        cov.update(extra)
    ev = {
        "property_id": prop,
        "tier": tier,
        "seed": int(seed),
        "level": level,
        "coverage": cov,
        "assumptions": [
            "the simulated OS (lock table, process table, directory-diff file events, signal table) is faithful to POSIX record locks, psutil 7, watchdog 2.3.1/inotify and CPython signal delivery as described in DESIGN.md section 2.2",
            "search is sampled: a clean batch is evidence, not proof",
        ],
        "wall_s": round(wall_s, 2),
        "violations": int(nviol),
    }
    path = os.path.join(VERIF, "evidence", "%s.json" % prop)
    tmp = path + ".tmp"
    with open(tmp, "w") as f:
        json.dump(ev, f, indent=1, default=str)
    os.replace(tmp, path)
    return path
