"""Simulated CLI process (property C19): runs the real `experimaestro jobs ...` and
`experimaestro orphans ...` commands through click, against the shared workspace,
possibly while experiments run.  Deletions go through a logging rmtree."""
import json
import os
import re
import shutil

from . import world as wmod

# ------------------------------------------------------------- filter ASTs


def render(ast):
    op = ast[0]
    if op == "eq":
        return '%s = "%s"' % (ast[1], ast[2])
    if op == "in":
        return "%s in [%s]" % (ast[1], ", ".join('"%s"' % v for v in ast[2]))
    if op == "notin":
        return "%s not in [%s]" % (ast[1], ", ".join('"%s"' % v for v in ast[2]))
    if op == "re":
        return '%s ~ "%s"' % (ast[1], ast[2])
    if op in ("and", "or"):
        return (" %s " % op).join(render(a) for a in ast[1:])
    raise AssertionError(ast)


def var_value(var, tags, state, name):
    if var == "@state":
        return state
    if var == "@name":
        return name
    v = tags.get(var)
    return None if v is None else str(v)


def ref_eval(ast, tags, state, name):
    """Documented meaning of a filter (reference evaluation)."""
    op = ast[0]
    if op == "eq":
        return var_value(ast[1], tags, state, name) == ast[2]
    if op == "in":
        return var_value(ast[1], tags, state, name) in ast[2]
    if op == "notin":
        return var_value(ast[1], tags, state, name) not in ast[2]
    if op == "re":
        v = var_value(ast[1], tags, state, name)
        return bool(v) and re.match(ast[2], v) is not None
    if op == "and":
        return all(ref_eval(a, tags, state, name) for a in ast[1:])
    if op == "or":
        return any(ref_eval(a, tags, state, name) for a in ast[1:])
    raise AssertionError(ast)


# ------------------------------------------------------------- workspace snapshots


def job_info(d):
    """What an outside observer derives from a job directory (documented state rules)."""
    name = os.path.basename(os.path.dirname(d)).rsplit(".", 1)[-1]
    st = None
    if os.path.isfile(os.path.join(d, name + ".done")):
        st = "DONE"
    elif os.path.isfile(os.path.join(d, name + ".failed")):
        st = "ERROR"
    elif os.path.isfile(os.path.join(d, name + ".pid")):
        st = "RUNNING"
    tags = {}
    try:
        with open(os.path.join(d, "params.json")) as f:
            tags = json.load(f).get("tags", {})
    except Exception:
        pass
    return {"state": st, "tags": tags, "name": os.path.basename(os.path.dirname(d)),
            "markers": sorted(s for s in ("done", "failed", "pid") if os.path.isfile(os.path.join(d, "%s.%s" % (name, s))))}


def ws_snapshot(w):
    ws = str(w.ws)
    jobs = {}
    jd = os.path.join(ws, "jobs")
    if os.path.isdir(jd):
        for t in sorted(os.listdir(jd)):
            td = os.path.join(jd, t)
            if not os.path.isdir(td):
                continue
            for h in sorted(os.listdir(td)):
                d = os.path.join(td, h)
                if os.path.isdir(d) and not os.path.islink(d):
                    info = job_info(d)
                    info["x"] = w.dir2x.get(d)
                    info["alive"] = sorted(p.pid for p in w.procs.values() if p.kind == "job" and p.alive and p.x == info["x"]) if info["x"] is not None else []
                    jobs["%s/%s" % (t, h)] = info
    index = {}
    xd = os.path.join(ws, "xp")
    if os.path.isdir(xd):
        for name in sorted(os.listdir(xd)):
            e = {}
            for sub in ("jobs", "jobs.bak"):
                sd = os.path.join(xd, name, sub)
                if os.path.isdir(sd):
                    e[sub] = sorted("%s/%s" % (t, h) for t in sorted(os.listdir(sd)) if os.path.isdir(os.path.join(sd, t))
                                    for h in sorted(os.listdir(os.path.join(sd, t))))
                else:
                    e[sub] = None
            index[name] = e
    busy = sorted(p.pid for p in w.procs.values() if p.alive and p.kind in ("sched", "job", "cli"))
    return {"jobs": jobs, "index": index, "busy": busy}


def sim_rmtree(path, *a, **kw):
    """rmtree seen by the CLI modules: log what is about to be removed, let others run."""
    w = wmod.W
    k = w.k
    d = str(path)
    if k.current is None:
        return shutil.rmtree(path, *a, **kw)
    rel = "%s/%s" % (os.path.basename(os.path.dirname(d)), os.path.basename(d))
    if os.path.dirname(os.path.dirname(d)) == str(w.ws / "jobs"):
        info = job_info(d)
        x = w.dir2x.get(d)
        alive = sorted(p.pid for p in w.procs.values() if p.kind == "job" and p.alive and p.x == x) if x is not None else []
        phases = sorted(p.info.get("phase", "starting") for p in w.procs.values() if p.kind == "job" and p.alive and p.x == x) if x is not None else []
        snap = ws_snapshot(w)
        indexed = sorted(n for n, e in snap["index"].items() for sub in ("jobs", "jobs.bak") if e.get(sub) and rel in e[sub])
        in_jobs = sorted(n for n, e in snap["index"].items() if e.get("jobs") and rel in e["jobs"])
        k.log("cli-rmtree", rel=rel, x=x, alive=alive, phases=phases, state=info["state"], markers=info["markers"], tags=info["tags"],
              name=info["name"], indexed=indexed, in_jobs=in_jobs)
        k.park()
    return shutil.rmtree(path, *a, **kw)


_installed = False


def install():
    global _installed
    if _installed:
        return
    _installed = True
    import experimaestro.cli as xcli
    import experimaestro.cli.jobs as xjobs
    import experimaestro.cli.filter  # noqa: F401

    xcli.rmtree = sim_rmtree
    xjobs.rmtree = sim_rmtree


def run_cli_plan(runner, proc, spec, st):
    from click.testing import CliRunner

    import experimaestro.cli as xcli
    import experimaestro.cli.jobs  # noqa: F401  (registers the jobs group)

    install()
    k, w = runner.k, runner.w
    ws = str(w.ws)
    for op in spec["ops"]:
        cmd = op["cmd"]
        if cmd.startswith("jobs-"):
            args = ["jobs", "--workdir", ws, cmd[5:]]
            if op.get("filter") is not None:
                args += ["--filter", render(op["filter"])]
            if op.get("experiment"):
                args += ["--experiment", op["experiment"]]
            if op.get("perform"):
                args += ["--perform"]
            if op.get("tags"):
                args += ["--tags"]
        elif cmd == "orphans":
            args = ["orphans"] + (["--clean"] if op.get("clean") else []) + [ws]
        else:
            raise AssertionError(op)
        k.log("cli-call", op=op, args=args[:1] + [a for a in args[1:] if a != ws], snap=ws_snapshot(w))
        k.park()
        res = CliRunner().invoke(xcli.cli, args, catch_exceptions=True)
        exc = None
        if res.exception is not None and not isinstance(res.exception, SystemExit):
            exc = "%s: %s" % (type(res.exception).__name__, str(res.exception)[:160])
        k.log("cli-return", op=op, code=res.exit_code, exc=exc, _out=[l for l in (res.output or "").splitlines() if l.strip()][-12:],
              snap=ws_snapshot(w))
