"""Oracles of engine S, evaluated over the recorded event log and the final
snapshot of one run.  Each returns a list of violations:
  {"prop": id, "cls": oracle clause, "sig": {...facts identifying the history...}, "detail": str}
"""
from collections import defaultdict

FINAL = ("DONE", "ERROR")


def V(prop, cls, sig, detail):
    return {"prop": prop, "cls": cls, "sig": sig, "detail": detail}


class Ctx:
    def __init__(self, scn, events, final):
        self.scn, self.events, self.final = scn, events, final
        self.by = defaultdict(list)
        for ev in events:
            self.by[ev[4]].append(ev)
        self.tasks = scn.get("tasks", [])
        self.proc_index = {}   # pid -> proc index
        for ev in self.by["proc-start"]:
            self.proc_index[ev[5]["pid"]] = ev[5]["index"]
        self.crashed = {ev[5]["pid"] for ev in self.by["proc-killed"] if ev[5]["kind"] != "job"}

    def ups(self, x):
        return [u for u, _ in self.tasks[x].get("deps", [])]

    def successes(self):
        """[(x, seq of body-end)] of body executions whose process then exited with status 0
        (a process killed between the end of the body and the success marker did not succeed)."""
        if getattr(self, "_succ", None) is None:
            last_ok = {}
            out = []
            for ev in self.events:
                if ev[4] == "body-end" and ev[5]["outcome"] == "ok":
                    last_ok[ev[2]] = (ev[5]["x"], ev[0])
                elif ev[4] == "proc-exit" and ev[5].get("kind") == "job" and ev[2] in last_ok:
                    x, s = last_ok.pop(ev[2])
                    if ev[5]["code"] == 0:
                        out.append((x, s))
                elif ev[4] == "proc-killed" and ev[5].get("kind") == "job":
                    last_ok.pop(ev[5]["pid"], None)
            self._succ = out
        return self._succ

    def ancestors(self, x):
        seen, todo = set(), list(self.ups(x))
        while todo:
            u = todo.pop()
            if u not in seen:
                seen.add(u)
                todo.extend(self.ups(u))
        return seen


# --------------------------------------------------------------------- C04


def check_C04(c):
    out = []
    for ev in c.by["spawn"]:
        p = ev[5]
        x = p["x"]
        if x is None:
            continue
        missing = [int(u) for u, ok in p["ups_done"].items() if not ok]
        if missing:
            embs = sorted((e if isinstance(e, str) else e[0]) for u, e in c.tasks[x].get("deps", []) if u in missing)
            out.append(V("C04", "spawn-before-upstream-done", {"embedding": embs},
                         "job x=%d spawned at seq %d while upstream %s had no success marker" % (x, ev[0], missing)))
    return out


# --------------------------------------------------------------------- C05


def check_C05(c):
    out = []
    # (a') submissions of one configuration from two user threads of a process (nothing fails in
    # these scenarios): whatever their order, one job is registered and every submission returns
    # the same output object
    par = defaultdict(list)
    for ev in c.by["par-submit-return"]:
        par[(ev[2], ev[5]["x"])].append(ev[5])
    for (pid, x), rets in sorted(par.items()):
        if any(ev[2] == pid and ev[5].get("x") == x and ev[5]["new"] == "ERROR" for ev in c.by["state"]):
            continue
        rets = rets + [ev[5] for ev in c.by["submit-return"] if ev[2] == pid and ev[5]["x"] == x]
        oids = sorted({r["oid"] for r in rets if "oid" in r and not r.get("out_none")})
        none = sum(1 for r in rets if r.get("out_none"))
        nreg = sum(1 for r in rets if r.get("has_future"))
        if len(oids) > 1 or none:
            out.append(V("C05", "concurrent-submit-new-output", {"none_returned": bool(none), "distinct_outputs": min(len(oids), 2)},
                         "pid %d: %d submissions of x=%d from two threads returned %d different output objects and %d times None" % (pid, len(rets), x, len(oids), none)))
        if nreg > 1:
            out.append(V("C05", "concurrent-submit-registered", {}, "pid %d: %d of the %d submissions of x=%d from two threads were accepted as new jobs" % (pid, nreg, len(rets), x)))
    # (a) duplicate submission returns the first output and registers nothing
    spawned_by = defaultdict(list)   # (pid, x) -> spawn seqs
    for ev in c.by["spawn"]:
        spawned_by[(ev[2], ev[5]["x"])].append(ev[0])
    for ev in c.by["submit-return"]:
        p = ev[5]
        if not p.get("dup"):
            continue
        if p.get("first_state") == "ERROR":
            continue
        if not p.get("same_output"):
            out.append(V("C05", "duplicate-submit-new-output", {"first_state": p.get("first_state")},
                         "duplicate submit of x=%d returned another object (first job %s)" % (p["x"], p.get("first_state"))))
        # (the job count is only comparable when no other thread of the process submits meanwhile)
        if (p["njobs_after"] != p["njobs_before"] and not any(e[2] == ev[2] for e in c.by["par-submit-call"])) \
                or p.get("registered_is_this") or p.get("has_future"):
            out.append(V("C05", "duplicate-submit-registered", {"first_state": p.get("first_state")},
                         "duplicate submit of x=%d registered/scheduled a second job" % p["x"]))
    # (b) no launch by an experiment entered after the marker was written
    marker_at = {}
    for ev in c.by["marker-written"]:
        marker_at.setdefault(ev[5]["x"], ev[0])
    entered = {}
    for ev in c.by["xp-entered"]:
        entered.setdefault(ev[2], ev[0])
    removed = defaultdict(list)
    for ev in c.by["marker-removed"]:
        removed[ev[5]["x"]].append(ev[0])
    for ev in c.by["spawn"]:
        x = ev[5]["x"]
        m = marker_at.get(x)
        if m is not None and entered.get(ev[2], 0) > m and not any(m < r < ev[0] for r in removed[x]):
            out.append(V("C05", "launched-after-success", {},
                         "x=%d launched at seq %d by pid %d whose experiment started after the success marker (seq %d)"
                         % (x, ev[0], ev[2], m)))
    # (c) body executions never overlap, none after success
    running = defaultdict(int)
    succeeded = {}
    for x_, s_ in c.successes():
        succeeded.setdefault(x_, s_)
    cleaned = {ev[5]["x"]: ev[0] for ev in c.by["cli-rmtree"] if ev[5].get("x") is not None}
    for ev in c.events:
        k = ev[4]
        if k == "body-start":
            x = ev[5]["x"]
            if x in succeeded and succeeded[x] < ev[0] and not (x in cleaned and cleaned[x] > succeeded[x]):
                out.append(V("C05", "body-run-again-after-success", {},
                             "body of x=%d started at seq %d although an execution had already completed successfully at seq %d" % (x, ev[0], succeeded[x])))
            if running[x] > 0:
                out.append(V("C05", "body-overlap", {}, "two bodies of x=%d run at once (seq %d)" % (x, ev[0])))
            if ev[5].get("done"):
                out.append(V("C05", "body-after-success", {}, "body of x=%d started with success marker present (seq %d)" % (x, ev[0])))
            running[x] += 1
        elif k == "body-end":
            running[ev[5]["x"]] -= 1
    # same scheduler never spawns the same job twice unless the first attempt failed
    return out


# --------------------------------------------------------------------- C06


def hang_site(c, pid):
    last = None
    for ev in c.events:
        if ev[2] == pid and ev[3].startswith("C:") and ev[4] in (
                "job-wait-call", "xp-wait-call", "xp-block-end", "submit-call", "xp-enter-call",
                "job-wait-return", "xp-wait-return", "submit-return", "xp-entered", "xp-exit", "linger", "cli-call", "cli-return"):
            last = ev
    if last is None:
        return "start"
    return {"job-wait-call": "job.wait", "xp-wait-call": "xp.wait", "xp-block-end": "experiment.__exit__",
            "submit-call": "submit", "xp-enter-call": "experiment.__enter__", "linger": "linger"}.get(last[4], "after:" + last[4])


def check_C06(c):
    out = []
    # finished states are absorbing (per job object).  A value that is replaced
    # within the same kernel step (same actor, no scheduling point in between)
    # was never observable and is not counted.
    finished = {}   # job -> (state, vtime of assignment)
    for ev in c.by["state"]:
        p = ev[5]
        j = (ev[2], p["job"])
        if j in finished and p["new"] != finished[j][0]:
            if finished[j][1] == ev[1]:
                if p["new"] in FINAL:
                    finished[j] = (p["new"], ev[1])
                else:
                    del finished[j]
                continue
            out.append(V("C06", "finished-state-overwritten",
                         {"overwrite": "%s->%s" % (finished[j][0], p["new"]), "via": p["where"]},
                         "job x=%s (%s) of pid %d: %s overwritten by %s in %s at seq %d"
                         % (p["x"], p["job"], ev[2], finished[j][0], p["new"], p["where"], ev[0])))
            if p["new"] in FINAL:
                finished[j] = (p["new"], ev[1])
        elif p["new"] in FINAL:
            finished[j] = (p["new"], ev[1])
    # wait() value is the final state, and truthful: DONE iff the success marker
    # existed when the final state was recorded
    marker_at = {}
    for ev in c.by["marker-written"]:
        marker_at.setdefault(ev[5]["x"], ev[0])
    for ev in c.by["job-wait-return"]:
        p = ev[5]
        if p["result"] not in FINAL:
            out.append(V("C06", "wait-returned-nonfinal", {"result": p["result"]}, "job.wait() of x=%d returned %s" % (p["x"], p["result"])))
        else:
            s_final = None
            for se in c.by["state"]:
                if se[2] == ev[2] and se[5]["x"] == p["x"] and se[5]["new"] == p["result"] and se[0] < ev[0]:
                    s_final = se[0]
            m = marker_at.get(p["x"])
            marker = m is not None and s_final is not None and m < s_final
            own = _own_exit_code(c, ev[2], p["x"], s_final)
            if own is not None:
                # the scheduler launched a process itself: its exit status decides
                if (p["result"] == "DONE") != (own == 0):
                    out.append(V("C06", "untruthful-final-state", {"result": p["result"], "exit": "zero" if own == 0 else "nonzero"},
                                 "job.wait() of x=%d returned %s but its process exited with %s" % (p["x"], p["result"], own)))
            elif (p["result"] == "DONE") != marker and not _dep_failed(c, ev[2], p["x"]):
                out.append(V("C06", "untruthful-final-state", {"result": p["result"], "marker": marker},
                             "job.wait() of x=%d returned %s but success marker present=%s when the state was recorded"
                             % (p["x"], p["result"], marker)))
        if p["state"] != p["result"]:
            out.append(V("C06", "state-differs-from-wait", {"state": p["state"], "result": p["result"]},
                         "x=%d: wait() returned %s, job.state is %s" % (p["x"], p["result"], p["state"])))
    # experiment wait returns only when all is final
    for ev in c.by["xp-wait-return"] + c.by["xp-exit"]:
        p = ev[5]
        if p.get("exc") not in (None, "FailedExperiment"):
            continue
        if ev[4] == "xp-exit" and _raised_in_block(c, ev):
            continue
        nonfinal = {x: s for x, s in (p.get("states") or {}).items() if s not in FINAL}
        if nonfinal and not _stopped(c, ev[2]):
            out.append(V("C06", "experiment-wait-returned-early", {"states": sorted(set(nonfinal.values()))},
                         "%s of pid %d at seq %d with non-final jobs %s" % (ev[4], ev[2], ev[0], nonfinal)))
    # quiescence: nobody hangs, every future resolved, states agree
    fin = c.final
    for i, pr in fin["procs"].items():
        if pr["kind"] != "sched" or pr["pid"] in c.crashed:
            continue
        if pr["hung"]:
            site = hang_site(c, pr["pid"])
            states = sorted(set(j["state"] for j in pr.get("jobs", {}).values()))
            out.append(V("C06", "hang-at-quiescence",
                         {"site": site, "job_states": states, "unfinished_sign": _sign(pr.get("unfinished"))},
                         "pid %d parked in %s at quiescence; jobs %s; unfinishedJobs=%s"
                         % (pr["pid"], site, {x: j["state"] for x, j in pr.get("jobs", {}).items()}, pr.get("unfinished"))))
            continue
        if _raised_in_block_pid(c, pr["pid"]) or _stopped(c, pr["pid"]):
            continue
        for x, j in pr.get("jobs", {}).items():
            if not j["future_done"]:
                out.append(V("C06", "future-unresolved", {"state": j["state"]}, "x=%s of pid %d: future unresolved at quiescence" % (x, pr["pid"])))
            elif j["result"] not in FINAL:
                out.append(V("C06", "future-nonfinal", {"result": j["result"]}, "x=%s: future resolved with %s" % (x, j["result"])))
            elif j["state"] != j["result"]:
                out.append(V("C06", "state-differs-from-wait", {"state": j["state"], "result": j["result"]},
                             "x=%s of pid %d: future %s, job.state %s at quiescence" % (x, pr["pid"], j["result"], j["state"])))
        if pr.get("unfinished") not in (0, None):
            out.append(V("C06", "unfinished-counter-nonzero", {"sign": _sign(pr.get("unfinished"))},
                         "pid %d: unfinishedJobs=%s at exit" % (pr["pid"], pr["unfinished"])))
    return out


def _own_exit_code(c, pid, x, before):
    """Exit status of the last process of x launched by scheduler pid before seq `before`."""
    last = None
    for ev in c.by["spawn"]:
        if ev[2] == pid and ev[5]["x"] == x and (before is None or ev[0] < before):
            last = ev
    if last is None:
        return None
    jpid = last[5]["jpid"]
    for ev in c.events:
        if ev[0] <= last[0]:
            continue
        if ev[4] == "proc-exit" and ev[2] == jpid:
            return ev[5]["code"]
        if ev[4] == "proc-killed" and ev[5].get("pid") == jpid:
            return -ev[5]["sig"]
    return None


def _dep_failed(c, pid, x):
    """x was cancelled because something it depends on ended in error in that scheduler
    (judged from the workload DAG and the observed states, not from function names in /repo)."""
    last = {}
    for ev in c.by["state"]:
        if ev[2] == pid and ev[5]["x"] is not None:
            last[ev[5]["x"]] = ev[5]["new"]
    return last.get(x) == "ERROR" and any(last.get(u) == "ERROR" for u in c.ancestors(x))


def _sign(n):
    if n is None:
        return None
    return "neg" if n < 0 else ("zero" if n == 0 else "pos")


def _raised_in_block(c, ev):
    return _raised_in_block_pid(c, ev[2])


def _raised_in_block_pid(c, pid):
    return any(e[2] == pid for e in c.by["user-raise"])


def _stopped(c, pid):
    return any(e[5].get("pid") == pid for e in c.by["signal"])


# --------------------------------------------------------------------- C07


def expected_outcomes(c, pid):
    """Reference model of one scheduler process's run: x -> ('DONE'|'ERROR', launched?)"""
    idx = c.proc_index.get(pid)
    entered = None
    for ev in c.by["xp-entered"]:
        if ev[2] == pid:
            entered = ev[0]
            break
    submitted = [ev[5]["x"] for ev in c.by["submit-return"] if ev[2] == pid and not ev[5].get("dup")]
    pre_done = set()
    for ev in c.by["proc-exit"]:
        if ev[5].get("kind") == "job" and ev[5].get("done") and entered is not None and ev[0] < entered:
            pre_done.add(ev[5]["x"])
    exp = {}
    spawn_of = {}
    for ev in c.by["spawn"]:
        if ev[2] == pid:
            spawn_of[ev[5]["x"]] = ev[0]        # last launch by this scheduler
    adopt_of = {}
    for ev in c.by["state"]:
        if ev[2] == pid and ev[5].get("adopt"):
            adopt_of.setdefault(ev[5]["x"], ev[0])

    observed = {}     # (x, attempt) -> how that execution ended ("ok" only if the process also exited with 0)
    open_att = {}
    by_proc = {}      # job pid -> (x, attempt) of its last body
    for ev in c.events:
        if ev[4] == "body-start":
            open_att[(ev[2], ev[5]["x"])] = ev[5]["attempt"]
            by_proc[ev[2]] = (ev[5]["x"], ev[5]["attempt"])
        elif ev[4] == "body-end":
            x_ = ev[5]["x"]
            key = next((k for k in open_att if k[1] == x_ and (k[0] == ev[2] or ev[2] == 0)), None)
            if key is not None:
                observed[(x_, open_att.pop(key))] = ev[5]["outcome"]
        elif ev[4] == "proc-killed" and ev[5].get("kind") == "job" and ev[5]["pid"] in by_proc:
            # killed after the body but before the success marker was written: not a success
            observed[by_proc[ev[5]["pid"]]] = "killed"
        elif ev[4] == "proc-exit" and ev[5].get("kind") == "job" and ev[2] in by_proc and ev[5]["code"] != 0:
            if observed.get(by_proc[ev[2]]) == "ok":
                observed[by_proc[ev[2]]] = "exit-nonzero"

    def attempt_outcome(x, att):
        if (x, att) in observed:
            return "DONE" if observed[(x, att)] == "ok" else "ERROR"
        outs = c.tasks[x].get("out") or ["ok"]
        o = outs[min(max(att, 0), len(outs) - 1)]
        return "DONE" if o == "ok" else "ERROR"

    def get(x):
        if x in exp:
            return exp[x]
        if x in pre_done:
            exp[x] = ("DONE", False)
            return exp[x]
        for u in c.ups(x):
            if get(u)[0] == "ERROR":
                exp[x] = ("ERROR", False)
                return exp[x]
        if x in spawn_of:
            # the attempt this scheduler launched itself
            att = sum(1 for ev in c.by["body-start"] if ev[5]["x"] == x and ev[0] < spawn_of[x])
            exp[x] = (attempt_outcome(x, att), True)
        elif x in adopt_of:
            # a process of an earlier run was adopted: its attempt decides
            att = sum(1 for ev in c.by["body-start"] if ev[5]["x"] == x and ev[0] < adopt_of[x]) - 1
            res = attempt_outcome(x, att)
            if res == "ERROR" and any(ev[5]["x"] == x for ev in c.by["marker-written"]):
                res = "DONE"      # (it had already completed, marker written, when it was looked at)
            exp[x] = (res, True)
        else:
            att = sum(1 for ev in c.by["body-start"] if ev[5]["x"] == x and entered is not None and ev[0] < entered)
            exp[x] = (attempt_outcome(x, att), True)
        return exp[x]

    for x in submitted:
        get(x)
    return {x: exp[x] for x in submitted}


def check_C07(c):
    out = []
    spawned = defaultdict(set)
    for ev in c.by["spawn"]:
        spawned[ev[2]].add(ev[5]["x"])
    for i, pr in c.final["procs"].items():
        if pr["kind"] != "sched" or pr["pid"] in c.crashed:
            continue
        pid = pr["pid"]
        if pr["hung"]:
            # quiescence (nothing can run any more) with a job that is not final although one of
            # its ancestors ended in error in this scheduler: it will never "end in error"
            resub_h = {ev[5]["x"] for ev in c.by["submit-return"] if ev[2] == pid and ev[5].get("dup")}
            jobs = pr.get("jobs", {})
            for xs, j in sorted(jobs.items()):
                x = int(xs)
                if j["state"] in FINAL or x in resub_h or (c.ancestors(x) & resub_h):
                    continue
                failed = sorted(u for u in c.ancestors(x) if jobs.get(str(u), {}).get("state") == "ERROR")
                if failed:
                    out.append(V("C07", "dependent-of-failed-never-cancelled", {"state": j["state"]},
                                 "x=%d of pid %d is %s at quiescence although its ancestors %s ended in error" % (x, pid, j["state"], failed)))
            continue
        if _raised_in_block_pid(c, pid) or _stopped(c, pid):
            continue
        exp = expected_outcomes(c, pid)
        # jobs submitted again after a failure (and what depends on them) are outside the
        # per-job model; the report on exit is judged from the observed final states
        resub = {ev[5]["x"] for ev in c.by["submit-return"] if ev[2] == pid and ev[5].get("dup") and ev[5].get("first_state") == "ERROR"}
        tainted = {x for x in exp if x in resub or (c.ancestors(x) & resub)}
        last_state = {}
        for ev in c.by["state"]:
            if ev[2] == pid:
                last_state[ev[5]["job"]] = ev[5]["new"]
        any_error = any(s == "ERROR" for s in last_state.values())
        for x, (st, launched) in sorted(exp.items()):
            if x in tainted:
                continue
            j = pr["jobs"].get(str(x))
            if j is None:
                continue
            res = j["result"]
            if st == "ERROR":
                any_error = True
            if not launched and st == "ERROR":
                if x in spawned[pid]:
                    out.append(V("C07", "dependent-of-failed-launched", {}, "x=%d launched by pid %d although an ancestor failed" % (x, pid)))
                if res != "ERROR":
                    out.append(V("C07", "dependent-of-failed-not-error", {"result": res}, "x=%d: ancestor failed but final result is %s" % (x, res)))
            elif launched:
                if x not in spawned[pid] and not _adopted(c, pid, x):
                    if res != "DONE":       # (DONE without a launch: somebody else completed it meanwhile)
                        out.append(V("C07", "independent-job-not-run", {"result": res}, "x=%d has no failed ancestor but was never launched by pid %d (result %s)" % (x, pid, res)))
                elif res != st:
                    out.append(V("C07", "independent-job-wrong-result", {"expected": st, "result": res}, "x=%d: expected %s, got %s" % (x, st, res)))
        for ev in c.by["xp-exit"]:
            if ev[2] != pid:
                continue
            raised = ev[5].get("exc") == "FailedExperiment"
            if ev[5].get("exc") not in (None, "FailedExperiment"):
                out.append(V("C07", "unexpected-exception-on-exit", {"exc": ev[5].get("exc")}, "leaving the experiment raised %s: %s" % (ev[5].get("exc"), ev[5].get("msg"))))
            elif raised != any_error:
                out.append(V("C07", "exit-report-wrong", {"raised": raised, "failed": any_error}, "pid %d: FailedExperiment raised=%s but failed jobs expected=%s" % (pid, raised, any_error)))
    return out


def _adopted(c, pid, x):
    return any(ev[2] == pid and ev[5]["x"] == x and ev[5].get("adopt") for ev in c.by["state"])


# --------------------------------------------------------------------- C08 / C09


def check_C08(c):
    out = []
    for ev in c.by["capacity-exceeded"]:
        p = ev[5]
        # did a watcher thread of a scheduler drop (POSIX per-process semantics) the job lock that
        # the same scheduler was holding to start a job, before the capacity was exceeded?
        dropped = any(e[0] < ev[0] and e[5].get("by") == "watch" and "/jobs/" in e[5]["path"] for e in c.by["flock-dropped-under-holder"])
        out.append(V("C08", "capacity-exceeded-" + p["what"], {"what": p["what"], "job_lock_dropped_by_own_watcher": dropped},
                     "token %s: %s=%d > total %d at seq %d (%s)" % (p["token"], p["what"], p["held"], p["total"], ev[0], p.get("holders"))))
    return out


def check_C09(c):
    out = []
    fin = c.final
    if fin["jobs_alive"]:
        return out
    for name, files in fin["tokfiles"].items():
        if files:
            out.append(V("C09", "token-file-left", {}, "token files %s left in %s at quiescence" % (files, name)))
    snaps = list(fin["idle_snaps"][-1:])
    for snap in snaps:
        for i, pr in snap["procs"].items():
            for ti, t in pr["tokens"].items():
                if t["available"] < t["total"]:
                    out.append(V("C09", "idle-token-below-capacity", {"kind": c.scn["tokens"][int(ti)]["kind"]},
                                 "proc %s: idle token %s shows %d of %d" % (i, ti, t["available"], t["total"])))
    for i, pr in fin["procs"].items():
        if pr["kind"] != "sched" or pr["pid"] in c.crashed:
            continue
        if _raised_in_block_pid(c, pr["pid"]) or _stopped(c, pr["pid"]):
            continue
        for x, j in pr.get("jobs", {}).items():
            if j["state"] in ("WAITING", "READY") and not j["future_done"]:
                toks = c.tasks[int(x)].get("tok", [])
                if toks and _upstreams_ok(c, pr, int(x)):
                    out.append(V("C09", "job-starved", {"state": j["state"], "unsatisfied": min(j["unsatisfied"], 1)},
                                 "x=%s of pid %d left %s (unsatisfied=%d) although every token is free" % (x, pr["pid"], j["state"], j["unsatisfied"])))
    return out


def _upstreams_ok(c, pr, x):
    for u in c.ups(x):
        j = pr["jobs"].get(str(u))
        if j is None or j["state"] != "DONE":
            return False
    return True


# --------------------------------------------------------------------- C11


def check_C11(c):
    """Run 1 of an experiment is killed at some point; the same plan is run again."""
    out = []
    crashed = sorted(c.crashed)
    stopped = {ev[5]["pid"] for ev in c.by["signal"] if c.proc_index.get(ev[5]["pid"]) is not None}
    allok = all((t.get("out") or ["ok"]) == ["ok"] for t in c.tasks) and not c.scn.get("jobfaults")
    # bodies: never overlapping, none after success (same clauses as C05), exactly once overall
    running = defaultdict(int)
    ok_count = defaultdict(int)
    starts = defaultdict(int)
    for ev in c.events:
        if ev[4] == "body-start":
            x = ev[5]["x"]
            starts[x] += 1
            if running[x] > 0:
                out.append(V("C11", "body-overlap", {}, "two bodies of x=%d run at once (seq %d)" % (x, ev[0])))
            if ev[5].get("done"):
                out.append(V("C11", "body-after-success", {}, "body of x=%d started although its success marker existed" % x))
            running[x] += 1
        elif ev[4] == "body-end":
            running[ev[5]["x"]] -= 1
    for x_, _s in c.successes():
        ok_count[x_] += 1
    killed_after_body = {ev[5]["x"] for ev in c.by["proc-killed"] if ev[5].get("kind") == "job"}
    for x, n in sorted(ok_count.items()):
        if n > 1:
            out.append(V("C11", "body-completed-twice", {}, "body of x=%d completed successfully %d times" % (x, n)))
    if allok:
        for x, n in sorted(starts.items()):
            if n > 1 and x not in killed_after_body:
                out.append(V("C11", "body-repeated", {}, "body of x=%d started %d times although nothing fails" % (x, n)))
    # adoption: no launch of a job that is running with a complete pid file
    alive_at = {}   # jpid -> (x, start seq, end seq)
    spans = []
    for ev in c.by["spawn"]:
        spans.append([ev[5]["jpid"], ev[5]["x"], ev[0], None])
    for ev in c.events:
        if ev[4] == "proc-exit" and ev[5].get("kind") == "job":
            for s in spans:
                if s[0] == ev[2] and s[3] is None and s[2] < ev[0]:
                    s[3] = ev[0]
                    break
        elif ev[4] == "proc-killed" and ev[5].get("kind") == "job":
            for s in spans:
                if s[0] == ev[5]["pid"] and s[3] is None and s[2] < ev[0]:
                    s[3] = ev[0]
                    break
    subm = {}
    for ev in c.by["submit-call"]:
        subm[(ev[2], ev[5]["x"])] = ev
    for ev in c.by["spawn"]:
        pid, x = ev[2], ev[5]["x"]
        sc = subm.get((pid, x))
        if sc is None or not (sc[5].get("pidfile") == "ok" and sc[5].get("pidfile_alive")):
            continue
        still = [s for s in spans if s[1] == x and s[2] < sc[0] and (s[3] is None or s[3] > ev[0])]
        if still:
            out.append(V("C11", "running-job-relaunched", {},
                         "pid %d launched x=%d at seq %d while process %d of the same job (complete pid file at submit) was still running"
                         % (pid, x, ev[0], still[0][0])))
    # adoption, continued: a scheduler that found the job running with a complete pid file when
    # the job was submitted does not start a process for it after that process has succeeded
    # (adopted means: its end is the job's end)
    ok_exit = {}     # job pid -> seq of its exit with status 0 after a completed body
    body_ok = set()
    for ev in c.events:
        if ev[4] == "body-end" and ev[5]["outcome"] == "ok":
            body_ok.add(ev[2])
        elif ev[4] == "proc-exit" and ev[5].get("kind") == "job" and ev[5]["code"] == 0 and ev[2] in body_ok and ev[2] not in ok_exit:
            ok_exit[ev[2]] = ev[0]
    for ev in c.by["spawn"]:
        pid, x = ev[2], ev[5]["x"]
        calls = [sc for sc in c.by["submit-call"] if sc[2] == pid and sc[5]["x"] == x and sc[0] < ev[0]]
        if not calls:
            continue
        sc = calls[-1]
        if not (sc[5].get("pidfile") == "ok" and sc[5].get("pidfile_alive")):
            continue
        seen = [s for s in spans if s[1] == x and s[2] < sc[0] and (s[3] is None or s[3] > sc[0])]
        ended_ok = [s for s in seen if s[0] in ok_exit and sc[0] < ok_exit[s[0]] < ev[0]]
        if ended_ok:
            out.append(V("C11", "running-job-not-adopted", {},
                         "pid %d found x=%d running (process %d, complete pid file) when it was submitted, that process succeeded at seq %d, and pid %d started another process for the job at seq %d"
                         % (pid, x, ended_ok[0][0], ok_exit[ended_ok[0][0]], pid, ev[0])))
    # second run: same final results, no exception, no hang
    for i, pr in sorted(c.final["procs"].items()):
        if pr["kind"] != "sched" or pr["pid"] in c.crashed:
            continue
        pid = pr["pid"]
        if pr["hung"]:
            out.append(V("C11", "restart-hang", {"site": hang_site(c, pid)},
                         "restarted experiment (pid %d) parked in %s at quiescence; jobs %s"
                         % (pid, hang_site(c, pid), {x: j["state"] for x, j in pr.get("jobs", {}).items()})))
            continue
        if pid in stopped:
            continue
        for ev in c.by["xp-exit"]:
            if ev[2] != pid:
                continue
            exc = ev[5].get("exc")
            if exc not in (None, "FailedExperiment"):
                out.append(V("C11", "restart-exception", {"exc": exc, "tb": (ev[5].get("tb") or ["?"])[-1]},
                             "restarted experiment raised %s: %s (%s)" % (exc, ev[5].get("msg"), ev[5].get("tb"))))
            elif allok and exc is not None:
                out.append(V("C11", "restart-failed", {}, "restarted experiment reports failure although no task fails"))
        for ev in c.by["submit-raise"]:
            if ev[2] == pid:
                out.append(V("C11", "restart-exception", {"exc": ev[5]["exc"], "tb": "submit"},
                             "submit of x=%s raised %s: %s" % (ev[5]["x"], ev[5]["exc"], ev[5].get("msg"))))
        if allok and not any(e[2] == pid for e in c.by["user-raise"]):
            for x, j in pr.get("jobs", {}).items():
                if j["result"] != "DONE":
                    out.append(V("C11", "restart-wrong-result", {"result": str(j["result"])[:40]},
                                 "x=%s: final result %s in the restarted experiment" % (x, j["result"])))
    # same final results: a job reported DONE has its success marker (nothing cleans in this profile)
    markers = c.final.get("markers") or {}
    for i, pr in sorted(c.final["procs"].items()):
        if pr["kind"] != "sched" or pr["pid"] in c.crashed or pr["hung"]:
            continue
        for x, j in pr.get("jobs", {}).items():
            if j["result"] == "DONE" and markers.get(x) is False:
                out.append(V("C11", "done-without-success-marker", {"adopted": _adopted(c, pr["pid"], int(x))},
                             "x=%s is DONE for pid %d but no success marker exists (adopted=%s)" % (x, pr["pid"], _adopted(c, pr["pid"], int(x)))))
    for v in check_C04(c):
        out.append(V("C11", "launched-before-upstream-done", v["sig"], v["detail"]))
    if not c.final["jobs_alive"]:
        for name, files in c.final["tokfiles"].items():
            if files:
                out.append(V("C11", "token-file-left", {}, "token files %s left in %s after the restart" % (files, name)))
    return out


# --------------------------------------------------------------------- C16


def check_C16(c):
    out = []
    rels = {int(x): r for x, r in (c.final.get("rels") or {}).items() if r}
    rel2x = {r: x for x, r in rels.items()}
    # per scheduler process: xp name, submitted jobs, linked jobs, block completed?
    runs = {}
    for ev in c.by["xp-enter-call"]:
        runs[ev[2]] = {"xp": ev[5]["xp"], "entered": None, "ended": None, "completed": False, "submitted": set(),
                       "linked": set(), "order": ev[0], "mode": ev[5].get("mode", "normal")}
    for ev in c.by["xp-entered"]:
        runs[ev[2]]["entered"] = ev[0]
        runs[ev[2]]["order"] = ev[0]     # runs are ordered by when they obtained the experiment
    raised = {e[2] for e in c.by["user-raise"]}
    block_end = {ev[2]: ev[0] for ev in c.by["xp-block-end"]}
    for ev in c.by["submit-return"]:
        if ev[2] in runs:
            runs[ev[2]]["submitted"].add(ev[5]["x"])
    for ev in c.by["state"]:
        if ev[2] in runs and ev[5]["new"] == "WAITING" and ev[5]["x"] is not None:
            runs[ev[2]]["linked"].add(ev[5]["x"])
    for ev in c.by["xp-exit"]:
        runs[ev[2]]["ended"] = ev[0]
    for ev in c.by["funlock"]:
        # the experiment is left when its lock is released (the exit event is logged later)
        r = runs.get(ev[2])
        if r is not None and r["entered"] is not None and ev[0] > r["entered"] and ev[5]["path"].endswith("/xp/%s/lock" % r["xp"]):
            if r["ended"] is None or ev[0] < r["ended"]:
                r["ended"] = ev[0]
    for ev in c.by["proc-killed"]:
        if ev[5]["pid"] in runs and runs[ev[5]["pid"]]["ended"] is None:
            runs[ev[5]["pid"]]["ended"] = ev[0]
    for ev in c.by["proc-exit"]:
        if ev[2] in runs and runs[ev[2]]["ended"] is None:
            runs[ev[2]]["ended"] = ev[0]
    # a plan is completed when its block ended without exception and every job it
    # submitted has gone through the link step (from then on the new index is
    # authoritative and the backup may go); a run killed before that is aborted
    for pid, r in runs.items():
        if r["mode"] != "normal":
            continue        # dry-run / generate-only runs schedule nothing: they neither complete a plan nor index jobs
        if pid in block_end and pid not in raised and r["submitted"] <= r["linked"]:
            r["completed"] = max([block_end[pid]] + [ev[0] for ev in c.by["state"]
                                                     if ev[2] == pid and ev[5]["new"] == "WAITING"])
    # exclusivity
    byxp = defaultdict(list)
    for pid, r in runs.items():
        if r["entered"] is not None and r["mode"] != "dry":      # (a dry run does not take the experiment lock)
            byxp[r["xp"]].append((r["entered"], r["ended"] if r["ended"] is not None else 10 ** 12, pid))
    for xp, ivs in byxp.items():
        ivs.sort()
        for a, b in zip(ivs, ivs[1:]):
            if b[0] < a[1]:
                out.append(V("C16", "two-holders", {}, "pids %d and %d are both inside experiment %s (seq %d..%d and %d..)" % (a[2], b[2], xp, a[0], a[1], b[0])))

    def protected(xp, upto):
        """jobs of the last completed plan + jobs linked by later (aborted) runs, as of seq upto"""
        last = None
        for pid, r in runs.items():
            if r["xp"] == xp and r["completed"] and r["completed"] <= upto:
                if last is None or r["completed"] > last[1]["completed"]:
                    last = (pid, r)
        prot = set()
        since = 0
        if last is not None:
            prot |= {x for x in last[1]["submitted"]}
            since = last[1]["order"]
        linked_at = {}
        for ev in c.by["state"]:
            if ev[5]["new"] == "WAITING" and ev[0] <= upto and ev[2] in runs:
                r = runs[ev[2]]
                if r["xp"] == xp and r["order"] > since and ev[5]["x"] is not None:
                    prot.add(ev[5]["x"])
        return prot, last

    def listed(snap):
        s = set()
        for sub in ("jobs", "jobs.bak"):
            if snap.get(sub):
                s |= set(snap[sub])
        return s


    snaps = [(ev[0], ev[5]["xp"], ev[5]["when"], ev[5]["snap"], ev[2] if ev[5]["when"] == "exit" else ev[5].get("victim")) for ev in c.by["index"]]
    for name, snap in (c.final.get("index") or {}).items():
        snaps.append((10 ** 12, name, "final", snap, None))
    for seq, xp, when, snap, pid in snaps:
        prot, last = protected(xp, seq)
        have = listed(snap)
        ondisk = set(snap.get("dirs") or [])
        missing = sorted(x for x in prot if rels.get(x) and rels[x] not in have and rels[x] in ondisk)
        if missing:
            out.append(V("C16", "protected-job-unindexed", {"when": when},
                         "experiment %s at seq %d (%s): jobs %s of the last completed plan / begun by an aborted run are in neither index (jobs=%s, bak=%s)"
                         % (xp, seq, when, missing, sorted(snap.get("jobs") or []), None if snap.get("jobs.bak") is None else sorted(snap["jobs.bak"]))))
        successor = False
        if when == "exit":
            # another process may already hold the experiment when the snapshot is taken
            rel_seq = max([ev[0] for ev in c.by["funlock"] if ev[2] == pid and ev[5]["path"].endswith("/xp/%s/lock" % xp) and ev[0] < seq] or [seq])
            successor = any(ev[2] != pid and ev[5]["xp"] == xp and rel_seq < ev[0] < seq for ev in c.by["xp-enter-call"] + c.by["xp-entered"]) \
                or any(ev[2] != pid and ev[5]["path"].endswith("/xp/%s/lock" % xp) and rel_seq < ev[0] < seq for ev in c.by["flock"])
        if when == "exit" and not successor and pid in runs and runs[pid]["completed"] and not any(e[2] == pid for e in c.by["user-raise"]):
            r = runs[pid]
            want = {rels[x] for x in r["submitted"] if rels.get(x)}
            got = set(snap.get("jobs") or [])
            if got != want:
                out.append(V("C16", "index-differs-from-plan", {"extra": bool(got - want), "missing": bool(want - got)},
                             "experiment %s after a normal end of pid %d: index has %s, plan submitted %s" % (xp, pid, sorted(got), sorted(want))))
            if snap.get("jobs.bak") is not None:
                out.append(V("C16", "backup-left-after-normal-end", {}, "experiment %s: jobs.bak still present after a normal end (pid %d)" % (xp, pid)))
            dirs = {}
            for ev in c.by["index"]:
                if ev[0] == seq:
                    dirs = ev[5].get("dirs") or {}
            for x, d in dirs.items():
                rel = rels.get(int(x))
                if rel and (snap.get("jobs") or {}).get(rel) not in (None, d):
                    out.append(V("C16", "link-target-wrong", {}, "link %s points to %s, job directory is %s" % (rel, snap["jobs"][rel], d)))
    orph = c.final.get("orphans")
    if orph is not None:
        if "error" in orph:
            out.append(V("C16", "orphans-command-failed", {}, "orphans command raised %s" % orph["error"]))
        else:
            for name in (c.final.get("index") or {}):
                prot, _ = protected(name, 10 ** 12)
                bad = sorted(x for x in prot if rels.get(x) in set(orph["orphans"]))
                if bad:
                    out.append(V("C16", "protected-job-reported-orphan", {}, "orphans command lists jobs %s of experiment %s" % (bad, name)))
    return out


# --------------------------------------------------------------------- C19


def check_C19(c):
    from .cliops import ref_eval

    out = []
    calls = {}
    ops = []
    for ev in c.events:
        if ev[4] == "cli-call":
            calls[ev[2]] = ev
        elif ev[4] == "cli-return" and ev[2] in calls:
            ops.append((calls.pop(ev[2]), ev))
    for call, ret in ops:
        op = call[5]["op"]
        before, after = call[5]["snap"], ret[5]["snap"]
        removed = sorted(set(before["jobs"]) - set(after["jobs"]))
        rms = [ev for ev in c.by["cli-rmtree"] if ev[2] == call[2] and call[0] < ev[0] < ret[0]]
        cmd = op["cmd"]
        destructive = (cmd == "jobs-clean" and op.get("perform")) or (cmd == "orphans" and op.get("clean"))
        desc = " ".join(call[5]["args"])
        other_rm = [ev for ev in c.by["cli-rmtree"] if ev[2] != call[2] and call[0] < ev[0] < ret[0]]
        if ret[5].get("exc") and ret[5]["exc"].startswith("FileNotFoundError") and other_rm:
            # another cleaning command deleted the same folder concurrently: the command
            # stops with a traceback but nothing unselected is removed (not claimed)
            pass
        elif ret[5].get("exc"):
            kind = "filter-raises" if op.get("filter") is not None else "cli-exception"
            fops = sorted(_filter_ops(op["filter"])) if op.get("filter") is not None else []
            out.append(V("C19", kind, {"ops": fops, "exc": ret[5]["exc"].split(":")[0]}, "`%s` raised %s" % (desc, ret[5]["exc"])))
        if not destructive:
            if rms:
                out.append(V("C19", "removed-without-perform", {"cmd": cmd}, "`%s` removed %s" % (desc, [e[5]["rel"] for e in rms])))
            continue
        stable = not [p for p in before["busy"] if p != call[2]] and not [p for p in after["busy"] if p != call[2]]
        for ev in rms:
            p = ev[5]
            b = before["jobs"].get(p["rel"]) or {}
            started_finished = b.get("state") in ("DONE", "ERROR") and not b.get("alive")
            relaunched = cmd == "jobs-clean" and started_finished and (p["alive"] or p["state"] not in ("DONE", "ERROR"))
            if relaunched:
                # finished and idle when the command read its state, relaunched by a scheduler before the rmtree
                out.append(V("C19", "relaunched-job-removed", {"cmd": cmd},
                             "`%s` removed %s (x=%s): finished when the command started, relaunched meanwhile (process %s, markers %s at removal)"
                             % (desc, p["rel"], p["x"], p["alive"], p["markers"])))
                continue
            finishing = bool(p["alive"]) and all(ph == "after-body" for ph in p.get("phases") or ["?"]) and p["state"] in ("DONE", "ERROR")
            if p["alive"] and not finishing:
                # (a process that has written its end-of-job marker and is only cleaning up is finished
                # by the documented state rules)
                out.append(V("C19", "running-job-removed", {"cmd": cmd, "markers": p["markers"]},
                             "`%s` removed %s (x=%s) while its process %s was running (markers %s)" % (desc, p["rel"], p["x"], p["alive"], p["markers"])))
            if cmd == "jobs-clean":
                if p["state"] not in ("DONE", "ERROR"):
                    out.append(V("C19", "unfinished-job-removed", {"state": p["state"]}, "`%s` removed %s in state %s" % (desc, p["rel"], p["state"])))
                if op.get("filter") is not None and not ref_eval(op["filter"], p["tags"], p["state"], p["name"]):
                    out.append(V("C19", "unselected-job-removed", {"ops": sorted(_filter_ops(op["filter"]))},
                                 "`%s` removed %s (tags %s, state %s) which the filter does not select" % (desc, p["rel"], p["tags"], p["state"])))
                if op.get("experiment") and op["experiment"] not in p["indexed"]:
                    out.append(V("C19", "other-experiment-job-removed", {},
                                 "`%s` removed %s which experiment %s does not index (indexed by %s)" % (desc, p["rel"], op["experiment"], p["indexed"])))
            else:
                if p["indexed"]:
                    at_call = any(p["rel"] in (e.get(sub) or []) for e in before["index"].values() for sub in ("jobs", "jobs.bak"))
                    out.append(V("C19", "indexed-job-removed", {"indexed_when_command_started": at_call, "experiment_running": bool(before["busy"])},
                                 "`%s` removed %s which is indexed by %s (indexed when the command started: %s)" % (desc, p["rel"], p["indexed"], at_call)))
        if stable and not ret[5].get("exc"):
            # nothing else ran: the removed set is exactly determined
            if cmd == "jobs-clean":
                unfinished_xp = any(e.get("jobs.bak") is not None for e in before["index"].values())
                want = set()
                for rel, info in before["jobs"].items():
                    if info["state"] not in ("DONE", "ERROR"):
                        continue
                    if op.get("filter") is not None and not ref_eval(op["filter"], info["tags"], info["state"], info["name"]):
                        continue
                    if op.get("experiment"):
                        e = before["index"].get(op["experiment"]) or {}
                        if rel not in (e.get("jobs") or []):
                            continue
                    want.add(rel)
            else:
                indexed = set()
                for e in before["index"].values():
                    for sub in ("jobs", "jobs.bak"):
                        indexed |= set(e.get(sub) or [])
                want = {rel for rel in before["jobs"] if rel not in indexed}
            got = set(removed)
            if got != want:
                out.append(V("C19", "removed-set-differs", {"cmd": cmd, "extra": bool(got - want), "missing": bool(want - got),
                                                            "ops": sorted(_filter_ops(op["filter"])) if op.get("filter") is not None else []},
                             "`%s`: removed %s, expected %s" % (desc, sorted(got), sorted(want))))
    return out


def _filter_ops(ast):
    if ast[0] in ("and", "or"):
        s = {ast[0]}
        for a in ast[1:]:
            s |= _filter_ops(a)
        return s
    return {ast[0]}


# --------------------------------------------------------------------- C20


def check_C20(c):
    out = []
    dep = c.by["deprecated"]
    if not dep:
        return out
    t0 = dep[0][5]["tree"]
    olddirs = {int(x): d for x, d in dep[0][5]["olddirs"].items()}

    def rel(d):
        p = d.rstrip("/").split("/")
        return "%s/%s" % (p[-2], p[-1])

    orig = {}   # x -> digest of its result file when the classes were deprecated
    for x, d in olddirs.items():
        dg = t0["results"].get(rel(d))
        if dg is not None:
            orig[x] = dg
    snaps = [(ev[0], ev[4], ev[5]["tree"]) for ev in c.events if ev[4] in ("fix-return", "fix-killed")]
    # (the final tree is not compared: the resubmission may legitimately rewrite results)
    for seq, kind, tree in snaps:
        real = {dg for r, dg in tree["results"].items() if r in tree["dirs"]}
        lost = sorted(x for x, dg in orig.items() if dg not in real)
        if lost:
            out.append(V("C20", "job-data-lost", {"after": kind},
                         "result files of jobs %s are in no job folder any more at seq %d (%s)" % (lost, seq, kind)))
    for ev in c.by["fix-return"]:
        if ev[5].get("exc"):
            out.append(V("C20", "fix-exception", {"exc": ev[5]["exc"].split(":")[0], "tb": (ev[5].get("tb") or ["?"])[-1]},
                         "fix_deprecated(fix=%s, cleanup=%s) raised %s (%s)" % (ev[5]["op"]["fix"], ev[5]["op"]["cleanup"], ev[5]["exc"], ev[5].get("tb"))))
    # after the last completed repair every former job is reachable under its new identifier
    completed = [ev for ev in c.by["fix-return"] if ev[5]["op"]["fix"] and not ev[5].get("exc")]
    newdirs = {int(x): d for x, d in (c.final.get("jobdir_variant") or {}).get("new", {}).items()}
    if completed and newdirs:
        tree = completed[-1][5]["tree"]
        for x, dg in sorted(orig.items()):
            nd = newdirs.get(x)
            if nd is None:
                continue
            if tree["results"].get(rel(nd)) != dg:
                out.append(V("C20", "old-result-unreachable", {"cleanup": bool(completed[-1][5]["op"]["cleanup"]), "kind": c.tasks[x].get("kind")},
                             "after the repair, job x=%d (%s) is not reachable at %s (found result %s, expected %s)"
                             % (x, c.tasks[x].get("kind"), rel(nd), tree["results"].get(rel(nd)), dg)))
    # resubmission finds the existing results
    for i, pr in c.final["procs"].items():
        if pr["kind"] != "sched":
            continue
        spec = c.scn["procs"][int(i)] if int(i) < len(c.scn["procs"]) else {}
        if spec.get("variant") != "new" or pr["hung"] or pr["pid"] in c.crashed:
            if spec.get("variant") == "new" and pr["hung"]:
                out.append(V("C20", "resubmission-hang", {}, "the resubmitting experiment hangs"))
            continue
        if not completed:
            continue
        for x in sorted(orig):
            j = pr["jobs"].get(str(x))
            if j is None:
                continue
            if j["result"] != "DONE":
                out.append(V("C20", "resubmitted-job-not-done", {"result": str(j["result"])[:30]}, "x=%d: %s after the repair" % (x, j["result"])))
            if any(ev[2] == pr["pid"] and ev[5]["x"] == x for ev in c.by["spawn"]):
                out.append(V("C20", "repaired-job-relaunched", {"kind": c.tasks[x].get("kind")},
                             "x=%d (%s) was launched again although its result existed under the former identifier" % (x, c.tasks[x].get("kind"))))
        for ev in c.by["xp-exit"]:
            if ev[2] == pr["pid"] and ev[5].get("exc") not in (None, "FailedExperiment"):
                out.append(V("C20", "resubmission-exception", {"exc": ev[5]["exc"]}, "resubmission raised %s: %s %s" % (ev[5]["exc"], ev[5].get("msg"), ev[5].get("tb"))))
    return out


# --------------------------------------------------------------------- C14


def check_C14(c):
    out = []
    for ev in c.by["mutate"]:
        p = ev[5]
        if p["raised"] is None:
            out.append(V("C14", "mutation-accepted", {"kind": p["kind"], "node": p["node"].split(":")[0], "cls": p["cls"]},
                         "after submit of x=%d, %s on %s (%s) was accepted" % (p["x"], p["kind"], p["node"], p["cls"])))
        if not p["ident_same"] or not p["path_same"]:
            out.append(V("C14", "identity-changed", {"kind": p["kind"], "node": p["node"].split(":")[0]},
                         "identifier/job path of x=%d changed after %s on %s" % (p["x"], p["kind"], p["node"])))
    for ev in c.by["copy-mutate"]:
        if not ev[5]["graph_same"]:
            out.append(V("C14", "submitted-graph-changed", {"kind": "copy-inplace", "node": ev[5]["node"].split(":")[0]},
                         "the graph of submitted x=%d changed when the containers of a copy of %s were changed in place" % (ev[5]["x"], ev[5]["node"])))
    for ev in c.by["params-check"]:
        if not ev[5]["equal"]:
            out.append(V("C14", "executed-differs-from-identified", {"error": ev[5].get("error")},
                         "params.json given to the process of x=%d differs from the configuration identified at submit: %s" % (ev[5]["x"], ev[5].get("diff") or ev[5].get("error"))))
    return out


ORACLES = {
    "C04": check_C04, "C05": check_C05, "C06": check_C06, "C07": check_C07,
    "C08": check_C08, "C09": check_C09, "C11": check_C11, "C16": check_C16, "C19": check_C19, "C20": check_C20, "C14": check_C14,
}


def evaluate(props, scn, events, final):
    c = Ctx(scn, events, final)
    res = []
    for p in props:
        f = ORACLES.get(p)
        if f is not None:
            res.extend(f(c))
    return res
