"""Minimisation of a failing run: workload first, then the choice log.

A candidate is kept iff it still shows a violation with the same property,
class and signature.  Every candidate executes in its own forked child."""
import copy
import time

from . import main as M


def _same(res, v):
    if not isinstance(res, dict) or "violations" not in res:
        return False
    return any(w["prop"] == v["prop"] and w["cls"] == v["cls"] and w["sig"] == v["sig"] for w in res["violations"])


class Budget:
    def __init__(self, n, wall):
        self.n, self.deadline = n, time.time() + wall

    def ok(self):
        return self.n > 0 and time.time() < self.deadline

    def use(self):
        self.n -= 1


def _run(prop, seed, scn, choices):
    return M.in_child(lambda: M.execute_run(prop, seed, scn=scn, replay=choices, full=True), timeout=20)


def workload_candidates(scn):
    """Simpler workloads, most aggressive first."""
    out = []
    procs = scn.get("procs", [])
    # drop a process (never the only one)
    if len(procs) > 1:
        for i in reversed(range(len(procs))):
            if any(("after_exit" in (p.get("start") or {}) and p["start"]["after_exit"] == i) for p in procs):
                continue
            c = copy.deepcopy(scn)
            del c["procs"][i]
            for p in c["procs"]:
                st = p.get("start") or {}
                if "after_exit" in st and st["after_exit"] > i:
                    st["after_exit"] -= 1
            out.append(c)
    # drop job faults / crash / cfg flags
    for i in range(len(scn.get("jobfaults", []))):
        c = copy.deepcopy(scn)
        del c["jobfaults"][i]
        out.append(c)
    for i, p in enumerate(procs):
        if p.get("crash"):
            c = copy.deepcopy(scn)
            del c["procs"][i]["crash"]
            out.append(c)
    cfg = scn.get("cfg", {})
    for flag in ("stall", "trace", "pid_reuse", "audit", "set_order"):
        if cfg.get(flag):
            c = copy.deepcopy(scn)
            c["cfg"][flag] = False
            if flag == "trace":
                c["cfg"]["preempt"] = 0
            out.append(c)
    # drop plan operations
    for i, p in enumerate(procs):
        for j in reversed(range(len(p.get("plan", [])))):
            c = copy.deepcopy(scn)
            del c["procs"][i]["plan"][j]
            out.append(c)
    # drop the last task if nothing refers to it
    n = len(scn.get("tasks", []))
    if n > 1:
        last = n - 1
        used = any(u == last for t in scn["tasks"] for u, _ in t.get("deps", []))
        if not used:
            c = copy.deepcopy(scn)
            c["tasks"].pop()
            for p in c["procs"]:
                p["plan"] = [op for op in p.get("plan", []) if not (len(op) > 1 and op[1] == last and op[0] in ("submit", "dup", "resubmit", "wait", "await-final", "mutate"))]
            c["jobfaults"] = [jf for jf in c.get("jobfaults", []) if jf.get("x") != last]
            out.append(c)
    # drop edges, tokens, failures
    for x, t in enumerate(scn.get("tasks", [])):
        for j in range(len(t.get("deps", []))):
            c = copy.deepcopy(scn)
            u, e = c["tasks"][x]["deps"][j]
            del c["tasks"][x]["deps"][j]
            if e == "wrapped":
                c["tasks"][x]["deps"] = [d for d in c["tasks"][x]["deps"] if not (isinstance(d[1], list) and d[1][1] == u)]
            out.append(c)
        for j in range(len(t.get("tok", []))):
            c = copy.deepcopy(scn)
            del c["tasks"][x]["tok"][j]
            out.append(c)
        if t.get("out") and t["out"] != ["ok"]:
            c = copy.deepcopy(scn)
            c["tasks"][x]["out"] = ["ok"]
            out.append(c)
    # lower token totals / requests
    for ti, tok in enumerate(scn.get("tokens", [])):
        if tok["total"] > 1:
            c = copy.deepcopy(scn)
            c["tokens"][ti]["total"] -= 1
            for t in c["tasks"]:
                for r in t.get("tok", []):
                    if r[0] == ti:
                        r[1] = min(r[1], c["tokens"][ti]["total"])
            out.append(c)
    for x, t in enumerate(scn.get("tasks", [])):
        for j, r in enumerate(t.get("tok", [])):
            if r[1] > 1:
                c = copy.deepcopy(scn)
                c["tasks"][x]["tok"][j][1] -= 1
                out.append(c)
    return out


def shrink(prop, seed, scn, choices, v, budget=250, wall=60.0):
    b = Budget(budget, wall)
    best = (scn, list(choices))
    best_res = _run(prop, seed, scn, choices)
    b.use()
    if not _same(best_res, v):
        # replay of own choices must reproduce; if not, give up shrinking
        return scn, list(choices), best_res
    # --- phase 1: workload
    progress = True
    while progress and b.ok():
        progress = False
        for cand in workload_candidates(best[0]):
            if not b.ok():
                break
            b.use()
            res = _run(prop, seed, cand, best[1])
            if _same(res, v):
                best = (cand, res["choices"])
                best_res = res
                progress = True
                break
    # --- phase 2: choice log: shortest failing prefix first (what follows is all zeros =
    # first enabled actor / no fault), then chunk deletion, then zeroing
    ch = list(best[1])
    if b.ok():
        lo, hi = 0, len(ch)
        b.use()
        res = _run(prop, seed, best[0], [])
        if _same(res, v):
            hi = 0
            best_res = res
        while hi - lo > 1 and b.ok():
            mid = (lo + hi) // 2
            b.use()
            res = _run(prop, seed, best[0], ch[:mid])
            if _same(res, v):
                hi = mid
                best_res = res
            else:
                lo = mid
        if hi < len(ch):
            b.use()
            res = _run(prop, seed, best[0], ch[:hi])
            if _same(res, v):
                ch = ch[:hi]
                best_res = res
    size = max(len(ch) // 2, 1)
    while size >= 1 and b.ok():
        i = 0
        changed = False
        while i < len(ch) and b.ok():
            cand = ch[:i] + ch[i + size:]
            b.use()
            res = _run(prop, seed, best[0], cand)
            if _same(res, v):
                ch = res["choices"]
                best_res = res
                changed = True
            else:
                i += size
        if size == 1 and not changed:
            break
        size = size // 2 if size > 1 else (1 if changed else 0)
    size = max(len(ch) // 4, 1)
    while size >= 1 and b.ok():
        i = 0
        while i < len(ch) and b.ok():
            if any(ch[i:i + size]):
                cand = ch[:i] + [0] * len(ch[i:i + size]) + ch[i + size:]
                b.use()
                res = _run(prop, seed, best[0], cand)
                if _same(res, v):
                    ch = res["choices"]
                    best_res = res
            i += size
        size //= 2
    # trailing zeros are implicit
    while ch and ch[-1] == 0:
        ch.pop()
    final = _run(prop, seed, best[0], ch)
    if _same(final, v):
        return best[0], ch, final
    return best[0], best_res["choices"], best_res
