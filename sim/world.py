"""Simulated OS + patches that put experimaestro's real code under the kernel.

One World per simulated run.  Patches are installed once per (forked) Python
process and always go through the module-global W.
"""
import errno
import json
import os
import re
import shutil
import signal as real_signal
import subprocess as real_subprocess
import sys
import threading as real_threading
import types
import asyncio
from pathlib import Path, PosixPath

os.environ.setdefault("PYTEST_CURRENT_TEST", "verif-sim")
sys._called_from_test = True

import fasteners  # noqa: E402
import psutil as real_psutil  # noqa: E402
from watchdog.events import (  # noqa: E402
    FileCreatedEvent,
    FileDeletedEvent,
    FileModifiedEvent,
)

import experimaestro  # noqa: E402,F401
import experimaestro.scheduler.base as xbase  # noqa: E402
import experimaestro.scheduler.dependencies as xdeps  # noqa: E402
import experimaestro.scheduler.dynamic_outputs as xdyn  # noqa: E402
import experimaestro.utils.asyncio as xasync  # noqa: E402
import experimaestro.connectors.local as xlocal  # noqa: E402
import experimaestro.connectors as xconn  # noqa: E402
import experimaestro.run as xrun  # noqa: E402
import experimaestro.ipc as xipc  # noqa: E402
import experimaestro.tokens as xtok  # noqa: E402
import experimaestro.taskglobals as xtaskglobals  # noqa: E402
import experimaestro.commandline as xcmd  # noqa: E402
import experimaestro.server  # noqa: E402,F401  (lazy import inside experiment.__init__: pay for it once)
import experimaestro.launchers.direct  # noqa: E402,F401
import experimaestro.tools.jobs  # noqa: E402,F401  (no module may be imported for the first time inside a run)
import experimaestro.cli  # noqa: E402,F401
import experimaestro.cli.jobs  # noqa: E402,F401
import experimaestro.cli.filter  # noqa: E402,F401
from experimaestro.scheduler.workspace import Workspace  # noqa: E402

from .kernel import (  # noqa: E402
    Kernel,
    Proxy,
    SimCFuture,
    SimLoop,
    SimMutex,
    run_coroutine_threadsafe,
)

W = None  # current World

SCHED_PID0 = 100
JOB_PID0 = 1000

REAL = {
    "trylock": fasteners.InterProcessLock.trylock,
    "unlock": fasteners.InterProcessLock.unlock,
    "ipl_init": fasteners.InterProcessLock.__init__,
}


def K():
    return W.k


def cur_pid():
    return W.k.cur_pid()


# ------------------------------------------------------------------ processes


class SimProc:
    def __init__(self, pid, kind):
        self.pid, self.kind = pid, kind
        self.alive = True
        self.code = None
        self.ctx = None          # saved globals
        self.handlers = {}       # signal handlers
        self.atexit = []
        self.cwd = Path("/")
        self.x = None            # job index (job processes)
        self.script = None
        self.main_actor = None
        self.observers = []
        self.lines = 0           # traced line events
        self.parent = None
        self.in_body = False
        self.info = {}


# ------------------------------------------------------------------ flock


def _lockpath(lock):
    p = lock.path
    if isinstance(p, bytes):
        p = p.decode()
    return os.path.realpath(str(p))


def harness_guard(fn):
    """A bug of the simulator inside a seam must never look like a failure of the code under
    test (which would catch it and, say, put the job in error): anything but the exceptions a
    seam raises on purpose (OSError family, Abandon) stops the run as a harness failure."""
    import functools

    from .kernel import Abandon

    @functools.wraps(fn)
    def wrapper(*a, **kw):
        try:
            return fn(*a, **kw)
        except (OSError, Abandon, real_psutil.Error, SystemExit, KeyboardInterrupt):
            raise
        except BaseException as e:
            import traceback

            if W is not None and not getattr(W.k, "harness_exc", None):
                W.k.harness_exc = "%s in seam %s: %s | %s" % (type(e).__name__, fn.__qualname__, e, traceback.format_exc()[-500:])
                W.k.stop_requested = "harness"
            raise

    return wrapper


@harness_guard
def sim_trylock(self):
    p = _lockpath(self)
    pid = cur_pid()
    owner = W.flocks.get(p)
    if owner is not None and owner != pid:
        W.k.log("flock-blocked", path=W.rel(p), owner=owner)
        W.k.count("flock-contended")
        raise IOError(errno.EAGAIN, "locked")
    W.flocks[p] = pid
    W.lock_holders[(p, pid)] = W.lock_holders.get((p, pid), 0) + 1
    W.k.log("flock", path=W.rel(p))


@harness_guard
def sim_unlock(self):
    p = _lockpath(self)
    pid = cur_pid()
    if W.flocks.get(p) == pid:
        del W.flocks[p]
    n = W.lock_holders.get((p, pid), 0) - 1
    W.lock_holders[(p, pid)] = max(n, 0)
    W.k.log("funlock", path=W.rel(p))
    if n > 0:
        # POSIX record locks belong to the process: this unlock also dropped the lock that another
        # lock object of the same process still believes it holds
        a = W.k.current
        W.k.log("flock-dropped-under-holder", path=W.rel(p), by=a.kind if a else None)
        W.k.count("probe:lock-dropped-under-another-holder")
        W.k.count("probe:lock-dropped-under-another-holder:%s" % ("token.lock" if str(p).endswith("token.lock") else "job-or-experiment lock"))
        # directed fault: right after this rare condition the process that lost its lock is a slow
        # one for a drawn number of steps (the others get to use the window)
        W.k.stall_after_rare(pid)


def sim_ipl_init(self, path, *a, **kw):
    REAL["ipl_init"](self, path, *a, **kw)

    def sleep(d):
        p = _lockpath(self)
        W.k.park(lambda: W.flocks.get(p) is None)

    self.sleep_func = sleep


# ------------------------------------------------------------------ threads


class SimThread:
    def __init__(self, group=None, target=None, name=None, args=(), kwargs=None, daemon=None):
        self.name, self.target, self.args, self.kwargs = name, target, args, kwargs or {}
        self.actor = None
        cur = W.k.current
        self.daemon = daemon if daemon is not None else (cur.daemon if cur is not None else False)

    @harness_guard
    def start(self):
        n = W.next_name("T")
        kind = "helper"
        nm = self.name or getattr(self.target, "__qualname__", "thread")
        if "watch" in nm:
            kind = "watch"
        self.actor = W.k.spawn(
            "%s:%s" % (n, nm), lambda: self.target(*self.args, **self.kwargs), cur_pid(), kind,
            daemon=self.daemon,
        )

    def is_alive(self):
        return self.actor is not None and not self.actor.done

    def join(self, timeout=None):
        a = self.actor
        W.k.wait_until(lambda: a.done or a.dead)


# ------------------------------------------------------------------ job processes


class SimPath(PosixPath):
    """Path used inside experimaestro.run: relative paths resolve against the
    simulated process's cwd (os.chdir is process-global and cannot be real)."""

    def resolve(self, strict=False):
        if not self.is_absolute():
            return PosixPath(W.curproc().cwd / self).resolve()
        return PosixPath(self).resolve()

    @classmethod
    def cwd(cls):
        return PosixPath(W.curproc().cwd)


def _run_sig(proc, sig):
    def deliver():
        h = proc.handlers.get(sig)
        W.k.log("signal-handler", sig=int(sig), handled=h is not None)
        if h is None or h in (real_signal.SIG_DFL,):
            if sig == real_signal.SIGINT:
                raise KeyboardInterrupt()
            W.terminate_current(-int(sig))
        elif h == real_signal.SIG_IGN:
            return
        else:
            h(int(sig), None)

    return deliver


def sim_signal_signal(sig, h):
    proc = W.curproc()
    old = proc.handlers.get(sig, real_signal.SIG_DFL)
    proc.handlers[sig] = h
    return old


def sim_getsignal(sig):
    return W.curproc().handlers.get(sig, real_signal.SIG_DFL)


class SimAtexit:
    @staticmethod
    def register(f, *a, **kw):
        W.curproc().atexit.append(f)
        return f

    @staticmethod
    def unregister(f):
        p = W.curproc()
        p.atexit = [g for g in p.atexit if g != f]


def body(task):
    """Body of every simulated task (called from simtasks.T.execute in a job
    process actor, through the real experimaestro.run.run)."""
    k = W.k
    proc = W.curproc()
    x = int(task.x)
    proc.in_body = True
    proc.info["phase"] = "body"
    W.bodies_running[proc.pid] = x
    att = W.attempts.get(x, 0)
    W.attempts[x] = att + 1
    k.log("body-start", x=x, attempt=att, done=W.marker_exists(x, "done"))
    for f in W.on_body_start:
        f(x, proc)
    for fn in W.scn["tasks"][x].get("stagefiles") or []:
        # the task's own stage files in its job directory (names that end like the runner's markers)
        (Path(proc.cwd) / fn).write_text("stage\n")
    try:
        # the body's duration: a number of scheduling points (workload knob), each of
        # which is also a point where a signal can arrive
        for _ in range(max(1, int(W.cfg.get("body_len", 1)))):
            k.park()
    except BaseException as e:
        proc.in_body = False
        proc.info["phase"] = "after-body"
        W.bodies_running.pop(proc.pid, None)
        k.log("body-end", x=x, outcome="interrupted:" + type(e).__name__)
        raise
    outs = W.scn["tasks"][x].get("out") or ["ok"]
    outcome = outs[min(att, len(outs) - 1)]
    proc.in_body = False
    proc.info["phase"] = "after-body"
    W.bodies_running.pop(proc.pid, None)
    k.log("body-end", x=x, outcome=outcome)
    if outcome == "ok":
        if W.cfg.get("results"):
            # job data: one result file in the job directory (the task's cwd)
            (Path(proc.cwd) / "result.txt").write_text("result of task %d (attempt %d)\n" % (x, att))
        return
    if outcome == "exc":
        raise RuntimeError("simulated task failure")
    if outcome.startswith("exit"):
        sys.exit(int(outcome[4:]))
    raise AssertionError(outcome)


def light(task):
    W.k.log("light-exec", cls=type(task).__name__)


class JobProc(SimProc):
    def __init__(self, pid, script, parent):
        super().__init__(pid, "job")
        self.script = Path(script)
        self.parent = parent

    def main(self):
        k = W.k
        code = 0
        try:
            txt = self.script.read_text()
            locks = re.findall(r"'''(.*?)'''", txt)
            m = re.search(r'TaskRunner\("(.*?)"', txt)
            if m is None or ".run()" not in txt[m.end():]:
                # a script that was not written completely (its writer was killed): an empty
                # file does nothing, a truncated one stops with an error; no runner, no body
                code = 0 if not txt.strip() else 1
                k.log("runner-broken-script", x=self.x, size=len(txt), code=code)
                k.count("probe:job-started-from-incomplete-script")
                return
            spath = m.group(1)
            k.log("runner-start", x=self.x)
            # interpreter start-up: arbitrary delay (workload knob start_len: a slow start-up spans
            # many scheduling points, e.g. a cold file system)
            for _ in range(max(1, int(W.cfg.get("start_len", 1)))):
                k.park()
            try:
                xrun.TaskRunner(spath, locks).run()
            except SystemExit as e:
                c = e.code
                code = 0 if c is None else (c if isinstance(c, int) else 1)
            except KeyboardInterrupt:
                code = -2
            except Exception as e:  # uncaught -> interpreter exits 1
                code = 1
                k.log("runner-exc", exc=type(e).__name__, msg=str(e)[:200])
            for f in reversed(list(self.atexit)):
                try:
                    f()
                except SystemExit:
                    pass
                except Exception as e:
                    k.log("atexit-exc", exc=type(e).__name__)
        finally:
            W.end_process(self, code)


class SimPopen:
    @harness_guard
    def __init__(self, command, stdin=None, stdout=None, stderr=None, env=None, **kw):
        for f in (stdin, stdout, stderr):
            if hasattr(f, "close"):
                f.close()
        w = W
        parent = cur_pid()
        script = command[0]
        if not os.access(script, os.X_OK):
            # execve of a file without the executable bit (e.g. a script whose writer died before chmod)
            w.k.count("probe:exec-of-non-executable-script")
            raise PermissionError(errno.EACCES, "Permission denied", str(script))
        pid = w.alloc_job_pid()
        jp = JobProc(pid, script, parent)
        jp.x = w.x_of_path(script)
        w.procs[pid] = jp
        self.jp, self.pid = jp, pid
        ups = {}
        if jp.x is not None:
            for u in w.upstreams(jp.x):
                ups[str(u)] = w.marker_exists(u, "done")
        w.last_spawn[(parent, jp.x)] = w.k.seq
        w.k.log("spawn", jpid=pid, x=jp.x, ups_done=ups, done=w.marker_exists(jp.x, "done") if jp.x is not None else None)
        for f in w.on_spawn:
            f(jp)
        jp.main_actor = w.k.spawn("P:%d" % pid, jp.main, pid, "job")

    def poll(self):
        return self.jp.code

    def wait(self, timeout=None):
        jp = self.jp
        W.k.wait_until(lambda: jp.code is not None)
        return jp.code

    def kill(self):
        W.kill_process(self.jp.pid, real_signal.SIGKILL)


class SimPsutil:
    NoSuchProcess = real_psutil.NoSuchProcess
    AccessDenied = real_psutil.AccessDenied

    class Process:
        def __init__(self, pid):
            p = W.procs.get(pid)
            if p is None or p.code is not None or not p.alive:
                raise real_psutil.NoSuchProcess(pid)
            self.pid = pid
            self._p = p

        def is_running(self):
            return self._p.code is None and self._p.alive

        def wait(self, timeout=None):
            p = self._p
            W.k.wait_until(lambda: p.code is not None)
            # psutil waits for a process that is not a child by polling (interval up to 40 ms):
            # the caller learns about the exit late, by a kernel-chosen amount
            late = (0, 0, 4, 16, 40)[W.k.choose(5, "poll-late")]
            if late:
                W.k.count("fault:late-wakeup-foreign-process-wait")
                W.k.sleep(late * 0.001)
            return None

        def __repr__(self):
            return "SimPs(%d)" % self.pid


# ------------------------------------------------------------------ observers


class SimObserver:
    def __init__(self, *a, **kw):
        self.pid = cur_pid()
        self.watches = []
        self.queue = []
        self.alive = False
        self.snap = {}
        self.actor = None

    def start(self):
        self.alive = True
        W.observers.append(self)
        W.curproc().observers.append(self)
        self.actor = W.k.spawn(W.next_name("O"), self.main, self.pid, "observer", daemon=True)

    def is_alive(self):
        return self.alive

    def schedule(self, handler, path, recursive=False):
        w = (handler, str(path))
        self.watches.append(w)
        self.snap[str(path)] = self.scan(str(path))
        return w

    def unschedule(self, w):
        if w in self.watches:
            self.watches.remove(w)

    @staticmethod
    def scan(path):
        out = {}
        try:
            names = sorted(os.listdir(path))
        except FileNotFoundError:
            return out
        for n in names:
            try:
                st = os.stat(os.path.join(path, n))
            except FileNotFoundError:
                continue
            out[n] = (st.st_ino, st.st_mtime_ns, st.st_size)
        return out

    def diff(self):
        if not self.alive:
            return
        for h, path in self.watches:
            new = self.scan(path)
            old = self.snap[path]
            if new == old:
                continue
            for n in sorted(set(new) | set(old)):
                p = os.path.join(path, n)
                if n not in old:
                    self.queue.append((h, FileCreatedEvent(p)))
                    if new[n][2] > 0:
                        self.queue.append((h, FileModifiedEvent(p)))
                    else:
                        W.k.count("probe:observer-saw-empty-file")
                elif n not in new:
                    self.queue.append((h, FileDeletedEvent(p)))
                elif new[n] != old[n]:
                    if new[n][0] != old[n][0]:
                        self.queue.append((h, FileDeletedEvent(p)))
                        self.queue.append((h, FileCreatedEvent(p)))
                    self.queue.append((h, FileModifiedEvent(p)))
            self.snap[path] = new

    def main(self):
        k = W.k
        while self.alive:
            k.park(lambda: bool(self.queue))
            if not self.queue:
                continue
            h, ev = self.queue.pop(0)
            k.log("fs-event", kind=ev.event_type, name=os.path.basename(ev.src_path))
            try:
                h.dispatch(ev)
            except Exception as e:
                # watchdog 2.3.1 EventDispatcher.run: the exception escapes, the
                # observer thread ends and no further event is delivered.
                self.alive = False
                k.count("probe:observer-died")
                k.log("observer-died", exc=type(e).__name__, msg=str(e)[:120])


# ------------------------------------------------------------------ scheduler bootstrap


class SimCentral:
    def __init__(self, name):
        k = W.k
        pid = cur_pid()
        self.loop = SimLoop(k, "L%d:%s" % (pid, name))
        self.exitCondition = asyncio.Condition()
        self.dependencyLock = asyncio.Lock()
        k.spawn("L:%d:%s" % (pid, name), self.loop.actor_main, pid, "loop", daemon=True)


class InertOutputsWorker:
    def __init__(self, xp):
        self.queue = types.SimpleNamespace(put=lambda x: None)

    def start(self):
        pass

    def watch_output(self, watched):
        pass


class ChoiceSet:
    """Insertion-ordered set whose iteration order is a kernel choice (stands
    for a set of objects hashed by address)."""

    def __init__(self, it=()):
        self.d = {}
        for x in it:
            self.d[x] = None

    def add(self, x):
        self.d[x] = None

    def update(self, it):
        for x in it:
            self.d[x] = None

    def discard(self, x):
        self.d.pop(x, None)

    def remove(self, x):
        del self.d[x]

    def __contains__(self, x):
        return x in self.d

    def __len__(self):
        return len(self.d)

    def __bool__(self):
        return bool(self.d)

    def __iter__(self):
        items = list(self.d)
        if len(items) > 1 and W is not None and W.k.current is not None and W.cfg.get("set_order", True):
            items = W.k.permute(items, "set")
        return iter(items)


class StateDesc:
    """Data descriptor standing in for the plain attribute Job.state: stores the
    value, logs every assignment."""

    def __get__(self, obj, typ=None):
        if obj is None:
            return self
        return obj.__dict__["_sim_state"]

    def __set__(self, obj, v):
        old = obj.__dict__.get("_sim_state")
        obj.__dict__["_sim_state"] = v
        if W is not None and W.k.current is not None:
            where = sys._getframe(1).f_code.co_name     # (informational only: probes, messages)
            harness_guard(W.on_state)(obj, old, v, where)


_orig_job_init = xbase.Job.__init__
_orig_dependents_init = xdeps.Dependents.__init__


def job_init(self, *a, **kw):
    _orig_job_init(self, *a, **kw)
    self.dependencies = ChoiceSet(self.dependencies)


def dependents_init(self):
    _orig_dependents_init(self)
    self._dependents = ChoiceSet()


GLOBALS = [
    (xbase.experiment, "CURRENT", lambda: None),
    (Workspace, "CURRENT", lambda: None),
    (xtok.CounterToken, "TOKENS", dict),
    (xlocal.LocalConnector, "INSTANCE", lambda: None),
    (xipc.IPCom, "INSTANCE", lambda: None),
    (xbase, "SIGNAL_HANDLER", xbase.SignalHandler),
    (xtaskglobals.Env, "_instance", lambda: None),
]

import builtins as _builtins
import io as _io

_real_open = _builtins.open


class _ClosingProxy:
    """File object of a path on which the opening process holds a record lock: POSIX drops
    the process's lock when *any* descriptor of the file is closed."""

    def __init__(self, f, path, pid):
        object.__setattr__(self, "_f", f)
        object.__setattr__(self, "_p", (path, pid))

    def __getattr__(self, n):
        return getattr(self._f, n)

    def __iter__(self):
        return iter(self._f)

    def __enter__(self):
        self._f.__enter__()
        return self

    def __exit__(self, *a):
        r = self._f.__exit__(*a)
        self._dropped()
        return r

    def close(self):
        self._f.close()
        self._dropped()

    def _dropped(self):
        path, pid = self._p
        if W is not None and W.flocks.get(path) == pid:
            del W.flocks[path]
            W.k.log("flock-dropped-by-close", path=W.rel(path))
            W.k.count("probe:lock-dropped-by-close")


def sim_open(file, *a, **kw):
    f = _real_open(file, *a, **kw)
    w = W
    if w is None or not w.flocks or w.k.current is None or isinstance(file, int):
        return f
    if sys._getframe(1).f_globals.get("__name__", "").startswith("fasteners"):
        return f
    try:
        p = os.path.realpath(os.fspath(file))
    except TypeError:
        return f
    pid = w.k.current.pid
    if w.flocks.get(p) == pid:
        return _ClosingProxy(f, p, pid)
    return f


_orig_glob = Path.glob
_orig_iterdir = Path.iterdir


def _shuffled(items):
    if W is None or W.k.current is None or not W.cfg.get("readdir_shuffle") or len(items) < 2:
        return items
    W.k.count("fault:readdir-order")
    return W.k.permute(items, "readdir")


def sim_glob(self, pattern, **kw):
    """Directory listing order is unspecified (it is hash order on ext4): when the
    workload enables it, the kernel PRNG decides it."""
    return iter(_shuffled(list(_orig_glob(self, pattern, **kw))))


def sim_iterdir(self):
    return iter(_shuffled(list(_orig_iterdir(self))))


_installed = False


def install():
    """Install all seams (idempotent). No file under /repo is modified."""
    global _installed
    if _installed:
        return
    _installed = True
    import logging

    logging.disable(logging.CRITICAL)

    fasteners.InterProcessLock.trylock = sim_trylock
    fasteners.InterProcessLock.unlock = sim_unlock
    fasteners.InterProcessLock.__init__ = sim_ipl_init

    xasync.Thread = SimThread
    thr = Proxy(real_threading, Thread=SimThread, Lock=SimMutex)
    xtok.threading = thr
    xdeps.threading = thr

    xlocal.subprocess = Proxy(real_subprocess, Popen=SimPopen)
    xlocal.psutil = SimPsutil
    xconn.Process.HANDLERS = {"local": xlocal.LocalProcess}

    xipc.Observer = SimObserver
    xipc.os = Proxy(os, getpid=cur_pid)
    xtok.os = Proxy(os, getpid=cur_pid)

    xbase.SchedulerCentral.create = staticmethod(lambda name: SimCentral(name))
    xbase.asyncio = Proxy(asyncio, run_coroutine_threadsafe=run_coroutine_threadsafe)
    xbase.signal = Proxy(real_signal, signal=sim_signal_signal, getsignal=sim_getsignal)
    xbase.time = Proxy(__import__("time"), time=lambda: W.k.now)
    xdyn.TaskOutputsWorker = InertOutputsWorker

    xbase.Job.__init__ = job_init
    xbase.Job.state = StateDesc()
    xdeps.Dependents.__init__ = dependents_init

    import inspect as real_inspect
    import experimaestro.core.objects as xobjects

    # error-reporting only (_initinfo): inspect.stack() costs ~6 ms per configuration
    xobjects.inspect = Proxy(
        real_inspect,
        stack=lambda: [(None,), (sys._getframe(2),)],
        getframeinfo=lambda fr, context=1: types.SimpleNamespace(filename=fr.f_code.co_filename, lineno=fr.f_lineno),
    )

    Path.glob = sim_glob
    Path.iterdir = sim_iterdir
    _builtins.open = sim_open
    _io.open = sim_open

    xrun.Path = SimPath
    xrun.os = Proxy(
        os,
        chdir=lambda d: setattr(W.curproc(), "cwd", Path(d)),
        register_at_fork=lambda **kw: None,
        getpid=cur_pid,
    )
    xrun.atexit = SimAtexit
    xrun.signal = Proxy(real_signal, signal=sim_signal_signal, getsignal=sim_getsignal)
    xrun.report_eoj = lambda: None
    xrun.progress = lambda *a, **kw: None
    rebind_by_identity(thr)
    preinit_types()
    from . import cliops

    cliops.install()


SIM_PATH_MODULES = (
    "experimaestro.scheduler.base", "experimaestro.scheduler.dependencies", "experimaestro.scheduler.workspace",
    "experimaestro.tokens", "experimaestro.locking", "experimaestro.commandline", "experimaestro.scriptbuilder",
    "experimaestro.connectors", "experimaestro.connectors.local", "experimaestro.ipc", "experimaestro.run",
    "experimaestro.utils.asyncio", "experimaestro.launchers.direct", "experimaestro.tools.jobs",
    "experimaestro.cli", "experimaestro.cli.jobs", "experimaestro.cli.filter",
)


def rebind_by_identity(thr):
    """The seams above are module attributes with the names the pinned tree uses (`tokens.os`,
    `connectors.local.subprocess`, ...).  A module that reaches the same primitive through another
    name (`from threading import Thread, Lock as ThreadLock`, `from subprocess import Popen`,
    `from time import time as now`, `shutil.rmtree` instead of `rmtree`) would silently escape the
    simulator, so every name of the modules on the simulated path that is bound to a real
    primitive - whatever it is called - is rebound to its simulated counterpart."""
    import shutil as real_shutil
    import time as real_time
    import atexit as real_atexit

    from . import cliops
    from watchdog.observers import Observer as RealObserver

    sub = xlocal.subprocess if isinstance(xlocal.subprocess, Proxy) else Proxy(real_subprocess, Popen=SimPopen)
    simtime = lambda: W.k.now  # noqa: E731
    objects = [
        (real_threading.Thread, SimThread), (real_threading.Lock, SimMutex),
        (real_subprocess.Popen, SimPopen), (os.getpid, cur_pid), (real_time.time, simtime),
        (real_psutil.Process, SimPsutil.Process), (RealObserver, SimObserver),
        (real_signal.signal, sim_signal_signal), (real_signal.getsignal, sim_getsignal),
        (real_shutil.rmtree, cliops.sim_rmtree),
    ]
    modules = {
        id(real_threading): lambda m: thr,
        id(real_subprocess): lambda m: sub,
        id(real_psutil): lambda m: SimPsutil,
        id(os): lambda m: Proxy(os, getpid=cur_pid),
        id(real_time): lambda m: Proxy(real_time, time=simtime),
        id(real_signal): lambda m: Proxy(real_signal, signal=sim_signal_signal, getsignal=sim_getsignal),
        id(real_shutil): lambda m: Proxy(real_shutil, rmtree=cliops.sim_rmtree),
    }
    for name in SIM_PATH_MODULES:
        mod = sys.modules.get(name)
        if mod is None:
            continue
        for attr, val in list(vars(mod).items()):
            if isinstance(val, types.ModuleType) and id(val) in modules:
                setattr(mod, attr, modules[id(val)](mod))
                continue
            for real, sim in objects:
                if val is real:
                    setattr(mod, attr, sim)
                    break
    # run.py: the job process' own view (working directory, fork hooks, exit callbacks)
    for attr, val in list(vars(xrun).items()):
        if val is real_atexit:
            setattr(xrun, attr, SimAtexit)
        elif val is real_atexit.register:
            setattr(xrun, attr, SimAtexit.register)
        elif val is real_atexit.unregister:
            setattr(xrun, attr, SimAtexit.unregister)
        elif val is os.chdir:
            setattr(xrun, attr, lambda d: setattr(W.curproc(), "cwd", Path(d)))
        elif val is getattr(os, "register_at_fork", None):
            setattr(xrun, attr, lambda **kw: None)
        elif val is Path or val is PosixPath:
            setattr(xrun, attr, SimPath)


def preinit_types():
    """Type information is initialised lazily and is process-global: do it before
    any simulated process exists (a simulated crash in the middle of it would leave
    the shared classes half-built, which a real new process cannot observe)."""
    from . import simtasks as S

    for name in dir(S):
        cls = getattr(S, name)
        if not (isinstance(cls, type) and hasattr(cls, "__getxpmtype__")):
            continue
        xt = cls.__getxpmtype__()
        if xt is not None and hasattr(xt, "__initialize__"):
            xt.__initialize__()
            xt.arguments
            getattr(xt, "task", None)


def escape_check():
    """Fail (harness error) if an experimaestro module on the simulated path
    still reaches a real OS primitive through a name we did not replace."""
    bad = []
    checks = [
        (xasync, "Thread", SimThread),
        (xlocal, "psutil", SimPsutil),
        (xipc, "Observer", SimObserver),
        (xdyn, "TaskOutputsWorker", InertOutputsWorker),
    ]
    for mod, name, want in checks:
        if getattr(mod, name) is not want:
            bad.append("%s.%s" % (mod.__name__, name))
    for mod in (xtok, xdeps):
        if getattr(mod.threading, "Thread", None) is not SimThread:
            bad.append(mod.__name__ + ".threading")
    if not isinstance(xlocal.subprocess, Proxy):
        bad.append("connectors.local.subprocess")
    for name, mod in list(sys.modules.items()):
        if not name.startswith("experimaestro.") or mod is None:
            continue
        if name.startswith(("experimaestro.tests", "experimaestro.server", "experimaestro.notifications",
                            "experimaestro.launchers.slurm", "experimaestro.connectors.ssh",
                            "experimaestro.scheduler.dynamic_outputs", "experimaestro.scheduler.services",
                            "experimaestro.rpyc", "experimaestro.utils.jobs", "experimaestro.utils.jupyter",
                            "experimaestro.experiments", "experimaestro.cli", "experimaestro.launcherfinder",
                            "experimaestro.huggingface")):
            continue
        if name in ("experimaestro.scheduler.base",):
            continue
        for attr in ("Thread",):
            v = mod.__dict__.get(attr)
            if v is real_threading.Thread:
                bad.append("%s.%s" % (name, attr))
    return bad


# ------------------------------------------------------------------ world


class World:
    def __init__(self, kernel, rundir, scn):
        self.k = kernel
        self.rundir = Path(rundir)
        self.ws = self.rundir / "ws"
        self.tokdir = self.rundir / "tokens"
        self.scn = scn
        self.cfg = scn.get("cfg", {})
        self.procs = {}
        self.flocks = {}
        self.observers = []
        self.names = {}
        self.next_sched_pid = SCHED_PID0
        self.next_job_pid = JOB_PID0
        self.dead_job_pids = []
        self.curctx = None
        self.bodies_running = {}
        self.attempts = {}
        self.jobdir = {}       # x -> job directory (str)
        self.dir2x = {}
        self.ident = {}        # x -> identifier
        self.on_spawn = []
        self.on_kill = []
        self.jobdir_variant = {}
        self.lock_holders = {}
        self.last_spawn = {}       # (scheduler pid, x) -> seq of its last simulated Popen for x
        self.on_body_start = []
        self.state_listeners = []
        self.jobx = {}         # id(job) -> x
        kernel.before_resume = self.before_resume
        kernel.after_step.append(self.fs_poll)
        kernel.after_step.append(self.cap_check)
        kernel.after_step.append(self.marker_poll)
        self.marker_seen = {}
        self.cap_reported = set()
        self.tok_cache = {}
        SimCFuture.kernel = kernel
        SimMutex.kernel = kernel
        kernel.scrub = str(self.rundir)

    # --- names, pids
    def next_name(self, prefix):
        n = self.names.get(prefix, 0) + 1
        self.names[prefix] = n
        return "%s%d" % (prefix, n)

    def rel(self, p):
        p = str(p)
        r = str(self.rundir)
        if p.startswith(r):
            p = p[len(r):]
        # strip hashes for readability, keep determinism
        return p

    def curproc(self):
        return self.procs[cur_pid()]

    def alloc_job_pid(self):
        if self.dead_job_pids and self.cfg.get("pid_reuse") and self.k.flip(1, 2, "pid-reuse"):
            self.k.count("fault:pid-reuse")
            return self.dead_job_pids.pop(0)
        pid = self.next_job_pid
        self.next_job_pid += 1
        return pid

    def new_proc(self, kind):
        pid = self.next_sched_pid
        self.next_sched_pid += 1
        p = SimProc(pid, kind)
        self.procs[pid] = p
        return p

    # --- context switching of per-process globals
    def before_resume(self, actor):
        pid = actor.pid
        if pid == self.curctx:
            return
        if self.curctx is not None:
            cur = self.procs.get(self.curctx)
            if cur is not None:
                cur.ctx = [getattr(o, n) for o, n, _ in GLOBALS]
        p = self.procs.get(pid)
        if p is not None:
            if p.ctx is None:
                p.ctx = [f() for _, _, f in GLOBALS]
            for (o, n, _), v in zip(GLOBALS, p.ctx):
                setattr(o, n, v)
        self.curctx = pid

    # --- job bookkeeping
    def register_job(self, x, job):
        d = str(job.path)
        self.jobdir[x] = d
        self.dir2x[d] = x
        self.ident[x] = job.identifier
        self.jobx[id(job)] = x

    def x_of_path(self, script):
        return self.dir2x.get(str(Path(script).parent))

    def x_of_job(self, job):
        x = self.jobx.get(id(job))
        if x is None:
            try:
                x = int(job.config.__xpm__.values.get("x"))
            except Exception:
                x = None
        return x

    def upstreams(self, x):
        return [u for u, _ in self.scn["tasks"][x].get("deps", [])]

    def marker_exists(self, x, suffix):
        d = self.jobdir.get(x)
        if d is None:
            return False
        name = os.path.basename(os.path.dirname(d)).rsplit(".", 1)[-1]
        return os.path.isfile(os.path.join(d, "%s.%s" % (name, suffix)))

    def on_state(self, job, old, new, where):
        x = self.x_of_job(job)
        # semantic tag, independent of function names in /repo: a job that becomes RUNNING in a
        # scheduler that has not started a process for it since the job object's previous state
        # change has been *adopted* (a process of an earlier run was found alive)
        prev = job.__dict__.get("_sim_state_seq", -1)
        adopt = new.name == "RUNNING" and self.last_spawn.get((cur_pid(), x), -1) < prev
        job.__dict__["_sim_state_seq"] = self.k.seq
        self.k.log(
            "state",
            x=x,
            job=self.k.oid(job, "j"),
            old=old.name if old is not None else None,
            new=new.name,
            where=where,
            adopt=adopt,
        )
        for f in self.state_listeners:
            f(job, x, old, new, where)

    # --- process end / crash
    def release_flocks(self, pid):
        for p, o in list(self.flocks.items()):
            if o == pid:
                del self.flocks[p]
        for key in [k for k in self.lock_holders if k[1] == pid]:
            del self.lock_holders[key]

    def end_process(self, proc, code):
        """Normal end of a simulated process (runs in its own actor)."""
        proc.code = code
        proc.alive = False
        self.release_flocks(proc.pid)
        self.bodies_running.pop(proc.pid, None)
        for o in proc.observers:
            o.alive = False
        if proc.kind == "job":
            self.dead_job_pids.append(proc.pid)
        self.k.log("proc-exit", kind=proc.kind, x=proc.x, code=code,
                   done=self.marker_exists(proc.x, "done") if proc.x is not None else None)
        # other threads of the process die with it
        for a in self.k.actors:
            if a.pid == proc.pid and a is not self.k.current:
                a.dead = True

    def kill_process(self, pid, sig=real_signal.SIGKILL, where="step"):
        """SIGKILL-like death decided by the kernel (kernel thread or another actor)."""
        proc = self.procs[pid]
        if not proc.alive:
            return
        proc.alive = False
        proc.code = -int(sig)
        self.k.kill_pid(pid)
        self.release_flocks(pid)
        if pid in self.bodies_running:
            x = self.bodies_running.pop(pid)
            self.k.log("body-end", x=x, outcome="killed")
        for o in proc.observers:
            o.alive = False
        if proc.kind == "job":
            self.dead_job_pids.append(pid)
        self.k.log("proc-killed", kind=proc.kind, pid=pid, x=proc.x, sig=int(sig), where=where)
        for f in self.on_kill:
            f(proc)
        self.k.count("fault:%s-kill" % proc.kind)

    def terminate_current(self, code):
        """The running actor's own process dies right now (default signal action
        or a crash point reached in this thread)."""
        pid = cur_pid()
        self.kill_process(pid, -code if code < 0 else real_signal.SIGKILL, where="self")
        self.k.abandon_current()

    def signal_process(self, pid, sig):
        """Deliver a catchable signal to the main thread of a process."""
        proc = self.procs[pid]
        if not proc.alive or proc.main_actor is None:
            return
        self.k.log("signal", pid=pid, sig=int(sig))
        self.k.count("fault:%s-sig%d" % (proc.kind, int(sig)))
        if not proc.main_actor.started:
            # not yet running Python code: default action
            self.kill_process(pid, sig)
            return
        proc.main_actor.signals.append(_run_sig(proc, sig))

    # --- filesystem events
    def fs_poll(self, k=None):
        for o in self.observers:
            o.diff()

    # --- success markers: log the step at which each becomes visible
    def marker_poll(self, k=None):
        for x in self.jobdir:
            ex = self.marker_exists(x, "done")
            if ex != self.marker_seen.get(x, False):
                self.marker_seen[x] = ex
                self.k.log("marker-written" if ex else "marker-removed", x=x)

    # --- token capacity invariant (C08), evaluated after every kernel step
    def cap_check(self, k=None):
        toks = self.scn.get("tokens") or []
        if not toks:
            return
        tasks = self.scn["tasks"]
        for ti, spec in enumerate(toks):
            total = spec["total"]
            groups = {}
            for jpid, x in self.bodies_running.items():
                for tj, c in tasks[x].get("tok", []):
                    if tj == ti:
                        key = 0 if spec["kind"] == "file" else self.procs[jpid].parent
                        groups.setdefault(key, []).append((x, c))
            for key, holders in groups.items():
                held = sum(c for _, c in holders)
                if held > total and (ti, "running") not in self.cap_reported:
                    self.cap_reported.add((ti, "running"))
                    self.k.log("capacity-exceeded", token=ti, what="running", held=held, total=total,
                               holders=sorted(holders))
            if spec["kind"] == "file":
                d = self.tokdir / ("tok%d.counter" % ti)
                try:
                    names = sorted(n for n in os.listdir(d) if n.endswith(".token"))
                except FileNotFoundError:
                    continue
                held = 0
                for n in names:
                    try:
                        with open(d / n) as fp:
                            line = fp.readline().strip()
                        held += int(line) if line else 0
                    except (FileNotFoundError, ValueError):
                        pass
                if held > total and (ti, "files") not in self.cap_reported:
                    self.cap_reported.add((ti, "files"))
                    self.k.log("capacity-exceeded", token=ti, what="files", held=held, total=total, holders=names)

    # --- teardown
    def cleanup(self):
        shutil.rmtree(self.rundir, ignore_errors=True)
