"""Engine H: identifiers under seeded operation histories and interpreters (C01,
history/environment independence only)."""
import json
import os
import random
import subprocess
import sys
import time
import traceback

VERIF = os.path.dirname(os.path.dirname(os.path.abspath(__file__)))
PY = "/venv/bin/python"
GOLDEN = os.path.join(VERIF, "golden", "identifiers.json")


# ---------------------------------------------------------------- generators


def gen_spec(rng):
    nn = rng.randint(1, 5)
    cyc = rng.random() < 0.45
    ns = []
    for k in range(nn):
        nd = {"i": rng.randint(0, 3)}
        if rng.random() < 0.4:
            nd["s"] = rng.choice(["d", "x", "yy", ""])
        if rng.random() < 0.3:
            nd["f"] = rng.choice([1.5, 0.0, 2.0, -1.25])
        if rng.random() < 0.3:
            nd["e"] = rng.choice(["RED", "GREEN", "BLUE"])

        def target():
            if cyc:
                return rng.randrange(nn)
            return rng.randrange(k) if k > 0 else None

        for f in ("a", "b"):
            if rng.random() < 0.45:
                t = target()
                if t is not None:
                    nd[f] = t
        if rng.random() < 0.25:
            ts = [target() for _ in range(rng.randint(1, 3))]
            nd["lst"] = [t for t in ts if t is not None]
        if rng.random() < 0.25:
            d = {}
            for key in rng.sample(["k1", "k2", "zz", "a"], rng.randint(1, 3)):
                t = target()
                if t is not None:
                    d[key] = t
            nd["dct"] = d
        ns.append(nd)
    ts = []
    # (tasks only on acyclic graphs: submitting a task whose parameters contain a cycle
    # fails with RecursionError in updatedependencies, which is not an identifier question)
    for k in range(rng.choice([0, 0, 1, 1, 2]) if not cyc else 0):
        td = {"cls": rng.choice(["HT", "HTW"]), "i": rng.randint(0, 3)}
        if rng.random() < 0.7:
            td["a"] = rng.randrange(nn)
        td["pre"] = [{"i": rng.randint(0, 2), **({"a": rng.randrange(nn)} if rng.random() < 0.5 else {})} for _ in range(rng.choice([0, 0, 1, 2]))]
        td["init"] = [{"i": rng.randint(0, 2), **({"a": rng.randrange(nn)} if rng.random() < 0.5 else {})} for _ in range(rng.choice([0, 0, 1]))]
        ts.append(td)
    us = []
    hts = [k for k, t in enumerate(ts) if t["cls"] == "HT"]
    hws = [k for k, t in enumerate(ts) if t["cls"] == "HTW"]
    for k in range(rng.choice([0, 1, 1, 2]) if ts else 0):
        ud = {"i": rng.randint(0, 3)}
        if hts and rng.random() < 0.7:
            ud["t"] = rng.choice(hts)
        if hws and rng.random() < 0.7:
            ud["w"] = rng.choice(hws)
        if rng.random() < 0.5:
            ud["a"] = rng.randrange(nn)
        if hts and rng.random() < 0.3:
            ud["ts"] = [rng.choice(hts) for _ in range(rng.randint(1, 2))]
        us.append(ud)
    return {"n": ns, "t": ts, "u": us}


def gen_history(rng, spec):
    """A legal interleaving of construction steps, identifier requests and seals."""
    nn, nt, nu = len(spec["n"]), len(spec["t"]), len(spec["u"])
    hist = []
    refs = [["n", k] for k in range(nn)] + [["t", k] for k in range(nt)] + [["u", k] for k in range(nu)]

    def maybe_ids(p=0.3):
        while rng.random() < p:
            r = rng.choice(refs)
            hist.append(["id", r[0], r[1]])

    order = list(range(nn))
    rng.shuffle(order)
    for k in order:
        ko = ["i", "s", "f", "e"]
        rng.shuffle(ko)
        hist.append(["n", k, ko, rng.choice(["ctor", "ctor", "ctor", "coerce", "copy"])])
        maybe_ids()
    wires = [(k, f) for k in range(nn) for f in ("a", "b", "lst", "dct")]
    rng.shuffle(wires)
    for k, f in wires:
        op = ["w", k, f]
        if f == "dct" and spec["n"][k].get("dct"):
            keys = list(spec["n"][k]["dct"])
            rng.shuffle(keys)
            op.append(keys)
        hist.append(op)
        maybe_ids(0.15)
    torder = list(range(nt))
    rng.shuffle(torder)
    pending = []
    for k in torder:
        hist.append(["t", k, rng.choice(["i", "a"])])
        maybe_ids(0.2)
        pending.append(k)
        if rng.random() < 0.6:
            j = pending.pop(rng.randrange(len(pending)))
            hist.append(["s", j])
            maybe_ids(0.3)
    rng.shuffle(pending)
    for j in pending:
        hist.append(["s", j])
        maybe_ids(0.3)
    uorder = list(range(nu))
    rng.shuffle(uorder)
    for k in uorder:
        hist.append(["u", k])
        maybe_ids(0.2)
    # everything is built: seals and requests in any order, repeated
    tail = []
    for r in refs:
        for _ in range(rng.randint(1, 2)):
            tail.append(["id", r[0], r[1]])
    for _ in range(rng.randint(0, 3)):
        r = rng.choice(refs)
        tail.append(["seal", r[0], r[1]])
    rng.shuffle(tail)
    hist.extend(tail)
    return hist


# ---------------------------------------------------------------- children


class Child:
    def __init__(self, hashseed):
        env = dict(os.environ, PYTHONHASHSEED=str(hashseed), PYTEST_CURRENT_TEST="verif-h")
        self.hashseed = hashseed
        self.p = subprocess.Popen([PY, "-W", "ignore", os.path.join(VERIF, "sim", "histrun.py")], stdin=subprocess.PIPE,
                                  stdout=subprocess.PIPE, stderr=subprocess.DEVNULL, text=True, env=env)

    def ask(self, req):
        self.p.stdin.write(json.dumps(req) + "\n")
        self.p.stdin.flush()
        line = self.p.stdout.readline()
        if not line:
            raise RuntimeError("child interpreter died")
        return json.loads(line)

    def close(self):
        try:
            self.p.stdin.close()
            self.p.wait(timeout=10)
        except Exception:
            self.p.kill()


def V(cls, sig, detail):
    return {"prop": "C01", "cls": cls, "sig": sig, "detail": detail}


def has_cycle(spec):
    n = len(spec["n"])
    adj = {k: set() for k in range(n)}
    for k, nd in enumerate(spec["n"]):
        for f in ("a", "b"):
            if nd.get(f) is not None:
                adj[k].add(nd[f])
        adj[k] |= set(nd.get("lst") or [])
        adj[k] |= set((nd.get("dct") or {}).values())
    color = {}

    def dfs(u):
        color[u] = 1
        for v in adj[u]:
            if color.get(v) == 1 or (v not in color and dfs(v)):
                return True
        color[u] = 2
        return False

    return any(k not in color and dfs(k) for k in range(n))


def check_graph(seed, spec, khist, children, golden=None):
    """Returns (violations, stats)."""
    from . import histrun

    rng = random.Random(repr(("hist", seed)))
    viol = []
    canon = None
    for ch in children:
        ans = ch.ask({"op": "canonical", "spec": spec})
        if "error" in ans and ans.get("error"):
            return [V("canonical-error", {"cyclic": has_cycle(spec)}, "canonical construction failed (PYTHONHASHSEED=%s): %s" % (ch.hashseed, ans["error"]))], {}
        if canon is None:
            canon = ans["ids"]
        elif ans["ids"] != canon:
            bad = sorted(k for k in canon if canon[k] != ans["ids"].get(k))
            viol.append(V("interpreter-dependent", {"cyclic": has_cycle(spec)}, "nodes %s get different identifiers under PYTHONHASHSEED=%s and %s" % (bad, children[0].hashseed, ch.hashseed)))
    if golden is not None and golden != canon:
        bad = sorted(k for k in canon if canon[k] != golden.get(k))
        viol.append(V("differs-from-pinned", {"cyclic": has_cycle(spec)}, "nodes %s differ from the pinned identifiers" % bad))
    hists = []
    for h in range(khist):
        hist = gen_history(rng, spec)
        hists.append(hist)
        if h == khist - 1 and children:
            res = children[-1].ask({"op": "history", "spec": spec, "hist": hist})     # one history in another process
        else:
            res = histrun.run_history(spec, hist)
        if res.get("error"):
            viol.append(V("history-error", {"cyclic": has_cycle(spec)}, "history %d raised %s" % (h, res["error"])))
            continue
        for node, ids in sorted(res["final"].items()):
            if len(set(ids)) > 1:
                viol.append(V("identifier-unstable", {"cyclic": has_cycle(spec), "kind": node[0]},
                              "history %d: node %s returned %d different identifiers over repeated requests" % (h, node, len(set(ids)))))
            if ids[0] != canon.get(node) or ids[-1] != canon.get(node):
                viol.append(V("history-dependent", {"cyclic": has_cycle(spec), "kind": node[0]},
                              "history %d: node %s has identifier %s..., canonical %s..." % (h, node, ids[0][:12], str(canon.get(node))[:12])))
                break
    return viol, {"canon": canon, "hists": hists}


# ---------------------------------------------------------------- check


def worker(widx, nworkers, base_seed, ngraphs, khist, hashseeds, wfd, deadline, golden):
    from . import main as M

    children = [Child(h) for h in hashseeds]
    agg = {"graphs": 0, "histories": 0, "violations": [], "shapes": [], "cyclic": 0, "samples": [], "errors": []}
    try:
        for idx in range(widx, ngraphs, nworkers):
            if time.time() > deadline:
                break
            seed = M.seed_for(base_seed, "C01", idx)
            spec = gen_spec(random.Random(repr(("spec", seed))))
            try:
                viol, st = check_graph(seed, spec, khist, children)
            except Exception:
                agg["errors"].append(traceback.format_exc()[-800:])
                children = [Child(h) for h in hashseeds]
                continue
            agg["graphs"] += 1
            agg["histories"] += khist
            cyc = has_cycle(spec)
            agg["cyclic"] += int(cyc)
            nodes = len(spec["n"]) + len(spec["t"]) + len(spec["u"])
            if nodes >= 2:
                agg["shapes"].append(json.dumps(spec, sort_keys=True))
            if len(agg["samples"]) < 2 and st:
                agg["samples"].append({"seed": seed, "spec": spec, "history": st["hists"][0], "canonical": st["canon"]})
            if viol:
                agg["violations"].append({"idx": idx, "seed": seed, "spec": spec, "violations": viol})
        if golden and widx == 0:
            for gi, (spec, ids) in enumerate(golden):
                viol, _ = check_graph(10 ** 9 + gi, spec, 1, children[:1], golden=ids)
                agg["histories"] += 1
                viol = [v for v in viol if v["cls"] in ("differs-from-pinned", "canonical-error")]
                if viol:
                    agg["violations"].append({"idx": -1 - gi, "seed": 10 ** 9 + gi, "spec": spec, "violations": viol})
            agg["golden_checked"] = len(golden)
    finally:
        for c in children:
            c.close()
    agg["shapes"] = sorted(set(agg["shapes"]))
    with os.fdopen(wfd, "w") as f:
        json.dump(agg, f)


def load_golden():
    if not os.path.exists(GOLDEN):
        return None
    with open(GOLDEN) as f:
        g = json.load(f)
    return [(e["spec"], e["ids"]) for e in g["entries"]]


def run_check(tier, base_seed, args):
    from . import main as M
    from .evidence import write_evidence

    t0 = time.time()
    ngraphs = args.runs or (1600 if tier == "quick" else 120000)
    khist = 5 if tier == "quick" else 6
    wall = args.wall or (120 if tier == "quick" else 900)
    nworkers = args.workers or 16
    hashseeds = [1, 4242] if tier == "quick" else [1, 4242, 99991]
    golden = load_golden()
    deadline = time.time() + wall
    pipes = []
    for w in range(nworkers):
        r, wfd = os.pipe()
        pid = os.fork()
        if pid == 0:
            os.close(r)
            try:
                worker(w, nworkers, base_seed, ngraphs, khist, hashseeds, wfd, deadline, golden)
            except BaseException:
                traceback.print_exc()
                os._exit(3)
            os._exit(0)
        os.close(wfd)
        pipes.append((pid, r))
    tot = {"graphs": 0, "histories": 0, "violations": [], "shapes": set(), "cyclic": 0, "samples": [], "errors": [], "golden_checked": 0}
    failures = 0
    for pid, r in pipes:
        with os.fdopen(r) as f:
            data = f.read()
        _, st = os.waitpid(pid, 0)
        if st != 0 or not data:
            failures += 1
            continue
        a = json.loads(data)
        for k in ("graphs", "histories", "cyclic"):
            tot[k] += a[k]
        tot["golden_checked"] += a.get("golden_checked", 0)
        tot["violations"] += a["violations"]
        tot["shapes"] |= set(a["shapes"])
        tot["samples"] += a["samples"]
        tot["errors"] += a["errors"]
    tot["violations"].sort(key=lambda v: v["idx"])
    known = M.load_known()
    lines, new_viol, known_hits, rc = [], [], {}, 0
    for rec in tot["violations"]:
        for v in rec["violations"]:
            e = M.match_known(v, known)
            if e is not None:
                known_hits.setdefault(e["id"], [e, 0, rec["seed"]])
                known_hits[e["id"]][1] += 1
            else:
                new_viol.append((rec, v))
    for eid, (e, n, seed) in sorted(known_hits.items()):
        lines.append("KNOWN-FINDING: property=C01 %s [%s] (class %s, %d violations; e.g. graph seed %d)" % (e["description"], eid, e["class"], n, seed))
    reported = set()
    os.makedirs(os.path.join(VERIF, "replays"), exist_ok=True)
    for rec, v in new_viol:
        key = (v["cls"], json.dumps(v["sig"], sort_keys=True))
        if key in reported or len(reported) >= 3:
            continue
        reported.add(key)
        rep = shrink_graph(rec, v, khist, hashseeds)
        path = os.path.join(VERIF, "replays", "C01-%d.json" % rec["seed"])
        with open(path, "w") as f:
            json.dump(rep, f, indent=1)
        lines.append("VIOLATION property=C01 replay=%s" % path)
        lines.append("  class=%s sig=%s" % (v["cls"], json.dumps(v["sig"], sort_keys=True)))
        lines.append("  " + v["detail"])
        rc = 1
    if failures or tot["errors"]:
        lines.append("HARNESS-ERROR workers failed=%d errors=%s" % (failures, tot["errors"][:1]))
        rc = rc or 2
    wall_s = time.time() - t0
    if not args.no_evidence:
        total = {"runs": tot["histories"], "shapes": sorted(tot["shapes"]), "steps": 0, "sim_time": 0.0, "counters": {},
                 "astates": [], "fault_free": tot["histories"], "samples": tot["samples"][:3], "statuses": {}, "incidental": {}, "harness": [],
                 "nviol": len(tot["violations"]), "skipped": 0, "nontrivial": len(tot["shapes"])}
        write_evidence(
            "C01", tier, base_seed, total, wall_s, len(new_viol), "exploration",
            {"real": ["experimaestro.core.objects (Config construction, HashComputer, identifiers(), seal, dry-run submit)", "experimaestro.core.types"],
             "stub": ["no scheduler, no job is launched (dry-run submit only)"]},
            known_hits={k: v[1] for k, v in known_hits.items()},
            rule="evaluations = operation histories executed (per generated graph: %d seeded histories = interleavings of node creation with permuted keyword order, edge wiring with permuted dict insertion order, dry-run submits, seals and repeated identifier requests; the last one in another process) "
                 "plus the canonical history per node in %d fresh interpreters with different PYTHONHASHSEED; distinct_nontrivial = distinct graph specs with >= 2 nodes" % (khist, len(hashseeds)),
            extra={"graphs": tot["graphs"], "cyclic_graphs": tot["cyclic"], "histories_per_graph": khist, "python_hash_seeds": hashseeds,
                   "golden_graphs_checked": tot["golden_checked"],
                   "not_decided_here": "that the content->identifier mapping is right for all graphs (pure function; see not_applicable C02/C03)"})
    for l in lines:
        print(l)
    print("C01 tier=%s graphs=%d (cyclic %d) histories=%d golden=%d violating_graphs=%d known=%d wall=%.1fs -> exit %d"
          % (tier, tot["graphs"], tot["cyclic"], tot["histories"], tot["golden_checked"], len(tot["violations"]), sum(v[1] for v in known_hits.values()), wall_s, rc))
    return rc


def shrink_graph(rec, v, khist, hashseeds):
    """Smaller graph with the same violation class (drop nodes from the end, drop edges)."""
    import copy

    children = [Child(h) for h in hashseeds[:2]]
    spec = rec["spec"]
    seed = rec["seed"]

    def fails(s):
        try:
            viol, _ = check_graph(seed, s, khist, children)
        except Exception:
            return False
        return any(w["cls"] == v["cls"] for w in viol)

    try:
        budget = 60
        progress = True
        while progress and budget > 0:
            progress = False
            cands = []
            if spec["u"]:
                c = copy.deepcopy(spec)
                c["u"].pop()
                cands.append(c)
            if spec["t"] and not any(u.get("t") == len(spec["t"]) - 1 or u.get("w") == len(spec["t"]) - 1 or (len(spec["t"]) - 1) in (u.get("ts") or []) for u in spec["u"]):
                c = copy.deepcopy(spec)
                c["t"].pop()
                cands.append(c)
            for k, nd in enumerate(spec["n"]):
                for f in ("a", "b", "lst", "dct", "s", "f", "e"):
                    if nd.get(f) not in (None, [], {}):
                        c = copy.deepcopy(spec)
                        del c["n"][k][f]
                        cands.append(c)
            for k, td in enumerate(spec["t"]):
                for f in ("pre", "init"):
                    if td.get(f):
                        c = copy.deepcopy(spec)
                        c["t"][k][f] = []
                        cands.append(c)
            for c in cands:
                budget -= 1
                if budget <= 0:
                    break
                if fails(c):
                    spec = c
                    progress = True
                    break
        viol, st = check_graph(seed, spec, khist, children)
        w = next((x for x in viol if x["cls"] == v["cls"]), v)
        return {"property": "C01", "engine": "H", "seed": seed, "spec": spec, "khist": khist, "hashseeds": hashseeds[:2], "violation": w,
                "histories": st.get("hists"), "canonical": st.get("canon")}
    finally:
        for c in children:
            c.close()


def replay(rep):
    children = [Child(h) for h in rep["hashseeds"]]
    try:
        viol, st = check_graph(rep["seed"], rep["spec"], rep["khist"], children)
    finally:
        for c in children:
            c.close()
    v = rep["violation"]
    print(json.dumps(rep["spec"]))
    for w in viol:
        if w["cls"] == v["cls"] and w["detail"] == v["detail"]:
            print("REPLAY-OK")
            print("VIOLATION property=C01 replay=(this file)")
            print("  class=%s sig=%s" % (w["cls"], json.dumps(w["sig"], sort_keys=True)))
            print("  " + w["detail"])
            return 1
    print("REPLAY-MISMATCH: got", json.dumps(viol)[:600])
    return 2


def make_golden(n=200):
    """Writes /verif/golden/identifiers.json from the current tree (run once on the pinned tree)."""
    ch = Child(7)
    entries = []
    try:
        for gi in range(n):
            spec = gen_spec(random.Random(repr(("golden", gi))))
            ans = ch.ask({"op": "canonical", "spec": spec})
            if ans.get("error"):
                continue
            entries.append({"spec": spec, "ids": ans["ids"]})
    finally:
        ch.close()
    os.makedirs(os.path.dirname(GOLDEN), exist_ok=True)
    with open(GOLDEN, "w") as f:
        json.dump({"note": "canonical identifiers (each node requested alone on a freshly built graph) of fixed graph specs, generated from the pinned tree; stands in for 'the identifier pinned by earlier releases'",
                   "entries": entries}, f)
    return len(entries)
