"""Engine R: the real generated job script in a real OS process, killed at
every traced line (enumerated), then relaunched.  Decides property C10."""
import json
import os
import shutil
import signal
import subprocess
import sys
import time
from concurrent.futures import ThreadPoolExecutor

VERIF = os.path.dirname(os.path.dirname(os.path.abspath(__file__)))
PY = "/venv/bin/python"
TRACEKILL = os.path.join(VERIF, "sim", "tracekill.py")

SCENARIOS = {
    # name: (task mode, pre-existing markers)
    "ok": ("ok", []),
    "raise": ("raise", []),
    "exit3": ("exit3", []),
    "done-present": ("ok", ["done"]),
    "failed-present": ("ok", ["failed"]),
}
SIGNALS = ["KILL", "TERM", "INT"]


def scratch_root():
    base = "/dev/shm" if os.path.isdir("/dev/shm") else os.environ.get("TMPDIR", "/tmp")
    return os.path.join(base, "verif-r-%d" % os.getpid())


def prepare_template(root, mode):
    """Job directory, params.json and script produced by the real prepare()
    (experiment in GENERATE_ONLY mode), in a child interpreter."""
    code = r'''
import sys, json
sys.path.insert(0, %(verif)r)
from pathlib import Path
from experimaestro import experiment, RunMode
from sim.rtasks import RTask
with experiment(%(ws)r, "r", run_mode=RunMode.GENERATE_ONLY, port=-1) as xp:
    xp.workspace.python_path.append(Path(%(verif)r))
    t = RTask(mode=%(mode)r, n=1)
    t.submit()
    job = t.__xpm__.job
    print(json.dumps({"dir": str(job.path), "script": str(job.path / (job.name + ".py")), "name": job.name,
                      "lock": str(job.lockpath), "pid": str(job.pidpath), "done": str(job.donepath), "failed": str(job.failedpath)}))
''' % {"verif": VERIF, "ws": os.path.join(root, "ws-" + mode), "mode": mode}
    env = dict(os.environ, PYTEST_CURRENT_TEST="verif-r")
    p = subprocess.run([PY, "-W", "ignore", "-c", code], capture_output=True, text=True, env=env, timeout=120)
    if p.returncode != 0:
        raise RuntimeError("prepare failed: " + p.stderr[-2000:])
    return json.loads(p.stdout.strip().splitlines()[-1])


def clone_case(tmpl, dest):
    """Fresh copy of the template job directory; returns the rewritten paths."""
    shutil.copytree(tmpl["dir"], dest, symlinks=True)
    info = {}
    for k in ("script", "lock", "pid", "done", "failed"):
        info[k] = os.path.join(dest, os.path.basename(tmpl[k]))
    info["dir"] = dest
    info["name"] = tmpl["name"]
    # the script refers to its own absolute path and a lock path relative to the job folder
    with open(info["script"]) as f:
        txt = f.read()
    txt = txt.replace(tmpl["dir"], dest)
    with open(info["script"], "w") as f:
        f.write(txt)
    with open(os.path.join(dest, "params.json")) as f:
        ptxt = f.read()
    with open(os.path.join(dest, "params.json"), "w") as f:
        f.write(ptxt.replace(tmpl["dir"], dest))
    return info


def launch(info, n, signame, sitefile, timeout=60, second=None):
    """Play the scheduler side of aio_run: start the process, write the pid file."""
    out = open(os.path.join(info["dir"], info["name"] + ".out"), "w")
    err = open(os.path.join(info["dir"], info["name"] + ".err"), "w")
    env = dict(os.environ, PYTEST_CURRENT_TEST="verif-r")
    extra = [str(second[0]), second[1]] if second else []
    p = subprocess.Popen([PY, "-W", "ignore", TRACEKILL, info["script"], str(n), signame, sitefile] + extra,
                         stdout=out, stderr=err, cwd="/", env=env, close_fds=True)
    tmp = info["pid"] + ".tmp"
    with open(tmp, "w") as f:
        json.dump({"type": "local", "pid": p.pid}, f)
    os.replace(tmp, info["pid"])
    try:
        code = p.wait(timeout=timeout)
    except subprocess.TimeoutExpired:
        p.kill()
        p.wait()
        code = "timeout"
    out.close()
    err.close()
    return code


def observe(info):
    import fasteners

    log = []
    lp = os.path.join(info["dir"], "body.log")
    if os.path.exists(lp):
        with open(lp) as f:
            log = f.read().split()
    lock = fasteners.InterProcessLock(info["lock"])
    got = lock.acquire(blocking=False)
    if got:
        lock.release()
    return {
        "done": os.path.isfile(info["done"]), "failed": os.path.isfile(info["failed"]), "pid": os.path.isfile(info["pid"]),
        "begins": log.count("begin"), "ends": log.count("end"), "lock_free": bool(got),
    }


def run_case(root, tmpl, scenario, signame, n, relaunches=1):
    """One enumerated case: returns {site, code, obs, relaunch..., violations}."""
    mode, pre = SCENARIOS[scenario]
    dest = os.path.join(root, "c-%s-%s-%d-%d" % (scenario, signame, n, os.getpid()), "job")
    shutil.rmtree(os.path.dirname(dest), ignore_errors=True)
    os.makedirs(os.path.dirname(dest))
    try:
        info = clone_case(tmpl, dest)
        for m in pre:
            with open(info[m], "w") as f:
                f.write("1" if m == "failed" else "")
        sitefile = os.path.join(os.path.dirname(dest), "site")
        code = launch(info, n, signame, sitefile)
        site = None
        if os.path.exists(sitefile):
            with open(sitefile) as f:
                site = f.read().strip()
        obs = observe(info)
        res = {"scenario": scenario, "sig": signame, "n": n, "site": site, "code": code, "obs": obs, "relaunch": []}
        viol = check_first(scenario, signame, n, site, code, obs)
        prev = obs
        for r in range(relaunches):
            sf = sitefile + ".r%d" % r
            code2 = launch(info, 0, "KILL", sf)
            obs2 = observe(info)
            res["relaunch"].append({"code": code2, "obs": obs2})
            viol += check_relaunch(scenario, prev, code2, obs2, r)
            prev = obs2
        res["violations"] = viol
        return res
    finally:
        shutil.rmtree(os.path.dirname(dest), ignore_errors=True)


def run_escalate(root, tmpl, scenario, signame, n, n2, relaunches=1):
    """Termination signal at traced line n (inside the body), SIGKILL n2 traced lines later
    (n2 = 0: no second signal, only the number of lines that follow is measured)."""
    mode, pre = SCENARIOS[scenario]
    dest = os.path.join(root, "e-%s-%s-%d-%d-%d" % (scenario, signame, n, n2, os.getpid()), "job")
    shutil.rmtree(os.path.dirname(dest), ignore_errors=True)
    os.makedirs(os.path.dirname(dest))
    try:
        info = clone_case(tmpl, dest)
        for m in pre:
            with open(info[m], "w") as f:
                f.write("1" if m == "failed" else "")
        sitefile = os.path.join(os.path.dirname(dest), "site")
        code = launch(info, n, signame, sitefile, second=(n2 if n2 else 10 ** 9, "KILL"))

        def rd(path):
            if os.path.exists(path):
                with open(path) as f:
                    return f.read().strip()
            return None

        site, site2, total = rd(sitefile), rd(sitefile + ".2"), rd(sitefile + ".count")
        obs = observe(info)
        res = {"scenario": scenario, "sig": "%s+KILL" % signame, "n": n, "n2": n2, "site": site, "site2": site2, "code": code, "obs": obs,
               "relaunch": [], "after": (int(total) - n) if total else None}
        ctx = "scenario=%s %s at n=%d (%s), KILL %d lines later (%s) exit=%s obs=%s" % (scenario, signame, n, site, n2, site2, code, obs)
        viol = []
        if code == "timeout":
            viol.append(V("runner-hang", {"scenario": scenario, "escalate": True}, "process did not end: " + ctx))
        else:
            if obs["done"] and "done" not in pre:
                viol.append(V("success-marker-without-completed-body", {"sig": res["sig"]}, ctx))
            if not obs["lock_free"]:
                viol.append(V("lock-survives-process", {"sig": res["sig"]}, ctx))
            # the handler had started to clean up (or ended on its own): the failure marker is there
            if in_body(site) and not obs["failed"] and (site2 is None or not site2.startswith("run.py:handle_error")):
                viol.append(V("signal-in-body-markers", {"sig": res["sig"], "failed": False, "done": obs["done"], "second": "none" if site2 is None else "in-cleanup"}, ctx))
            prev = obs
            for r in range(relaunches):
                code2 = launch(info, 0, "KILL", sitefile + ".r%d" % r)
                obs2 = observe(info)
                res["relaunch"].append({"code": code2, "obs": obs2})
                viol += check_relaunch(scenario, prev, code2, obs2, r)
                prev = obs2
        res["violations"] = viol
        return res
    finally:
        shutil.rmtree(os.path.dirname(dest), ignore_errors=True)


def V(cls, sig, detail):
    return {"prop": "C10", "cls": cls, "sig": sig, "detail": detail}


def in_body(site):
    return site is not None and site.startswith("rtasks.py:")


def check_first(scenario, signame, n, site, code, obs):
    out = []
    mode, pre = SCENARIOS[scenario]
    ctx = "scenario=%s signal=%s n=%d site=%s exit=%s obs=%s" % (scenario, signame, n, site, code, obs)
    if code == "timeout":
        return [V("runner-hang", {"scenario": scenario}, "process did not end: " + ctx)]
    if obs["done"] and "done" not in pre and obs["ends"] < 1:
        out.append(V("success-marker-without-completed-body", {"sig": signame}, ctx))
    if not obs["lock_free"]:
        out.append(V("lock-survives-process", {"sig": signame}, ctx))
    killed = n > 0 and site is not None and not site.startswith("count:")
    if killed and signame in ("TERM", "INT") and in_body(site):
        if not obs["failed"] or obs["done"] or code == 0:
            out.append(V("signal-in-body-markers", {"sig": signame, "failed": obs["failed"], "done": obs["done"], "exit0": code == 0}, ctx))
    if not killed:
        # the job ended on its own
        if obs["pid"]:
            out.append(V("pid-file-left", {"outcome": scenario}, ctx))
        if (code == 0) != obs["done"]:
            out.append(V("exit-status-vs-marker", {"exit0": code == 0, "done": obs["done"]}, ctx))
        if "done" in pre and obs["begins"] > 0:
            out.append(V("body-ran-with-marker", {}, ctx))
        if "done" not in pre and obs["begins"] != 1:
            out.append(V("body-not-run", {}, ctx))
    return out


def check_relaunch(scenario, prev, code, obs, r):
    out = []
    ctx = "scenario=%s relaunch=%d before=%s exit=%s after=%s" % (scenario, r, prev, code, obs)
    if code == "timeout":
        return [V("runner-hang", {"scenario": scenario, "relaunch": True}, ctx)]
    ran = obs["begins"] - prev["begins"]
    if prev["done"] and ran != 0:
        out.append(V("relaunch-ran-body-with-marker", {}, ctx))
    if not prev["done"] and ran != 1:
        out.append(V("relaunch-did-not-run-body", {"ran": ran}, ctx))
    if obs["done"] and obs["ends"] < 1 and "done" not in SCENARIOS[scenario][1]:
        out.append(V("success-marker-without-completed-body", {"sig": "relaunch"}, ctx))
    if not obs["lock_free"]:
        out.append(V("lock-survives-process", {"sig": "relaunch"}, ctx))
    if obs["pid"]:
        out.append(V("pid-file-left", {"outcome": scenario, "relaunch": True}, ctx))
    return out


def start(info, sitefile):
    out = open(os.path.join(info["dir"], info["name"] + ".out"), "a")
    err = open(os.path.join(info["dir"], info["name"] + ".err"), "a")
    env = dict(os.environ, PYTEST_CURRENT_TEST="verif-r")
    p = subprocess.Popen([PY, "-W", "ignore", TRACEKILL, info["script"], "0", "KILL", sitefile], stdout=out, stderr=err, cwd="/", env=env, close_fds=True)
    tmp = info["pid"] + ".tmp"
    with open(tmp, "w") as f:
        json.dump({"type": "local", "pid": p.pid}, f)
    os.replace(tmp, info["pid"])
    out.close()
    err.close()
    return p


def run_concurrent(root, tmpl, variant):
    """Two launches of the same script: B waits for the job lock while A's body runs;
    B is left alone / SIGTERMed / SIGKILLed while it waits; then A finishes."""
    dest = os.path.join(root, "cc-%s-%d" % (variant, os.getpid()), "job")
    shutil.rmtree(os.path.dirname(dest), ignore_errors=True)
    os.makedirs(os.path.dirname(dest))
    res = {"scenario": "concurrent-" + variant, "sig": {"wait": "-", "term": "TERM", "kill": "KILL"}[variant], "n": 0, "site": "lock-wait", "relaunch": []}
    try:
        info = clone_case(tmpl, dest)
        base = os.path.dirname(dest)
        a = start(info, os.path.join(base, "siteA"))
        lp = os.path.join(info["dir"], "body.log")
        for _ in range(400):
            if os.path.exists(lp) and "begin" in open(lp).read():
                break
            time.sleep(0.05)
        b = start(info, os.path.join(base, "siteB"))
        # wait until B (imports done, handlers installed) reaches the acquisition of the run lock
        for _ in range(600):
            if os.path.exists(os.path.join(base, "siteB.atlock")) or b.poll() is not None:
                break
            time.sleep(0.05)
        time.sleep(0.4)
        b_alive = b.poll() is None
        if variant == "term":
            b.send_signal(signal.SIGTERM)
        elif variant == "kill":
            b.kill()
        if variant != "wait":
            try:
                b.wait(timeout=30)
            except subprocess.TimeoutExpired:
                pass
        with open(os.path.join(info["dir"], "go"), "w") as f:
            f.write("go")
        codes = []
        for p in (a, b):
            try:
                codes.append(p.wait(timeout=60))
            except subprocess.TimeoutExpired:
                p.kill()
                p.wait()
                codes.append("timeout")
        obs = observe(info)
        res.update({"code": codes, "obs": obs, "b_waited": b_alive})
        viol = []
        ctx = "two launches, second %s while waiting for the lock: exits=%s obs=%s" % (variant, codes, obs)
        if "timeout" in codes:
            viol.append(V("runner-hang", {"scenario": "concurrent"}, ctx))
        if obs["begins"] != 1 or obs["ends"] != 1:
            viol.append(V("concurrent-launch-reran-body", {"variant": variant, "begins": obs["begins"]}, ctx))
        if not obs["done"]:
            viol.append(V("concurrent-launch-lost-marker", {"variant": variant}, ctx))
        if not obs["lock_free"]:
            viol.append(V("lock-survives-process", {"sig": "concurrent"}, ctx))
        code2 = launch(info, 0, "KILL", os.path.join(base, "siteR"))
        obs2 = observe(info)
        res["relaunch"].append({"code": code2, "obs": obs2})
        viol += check_relaunch("ok", obs, code2, obs2, 0)
        res["violations"] = viol
        return res
    finally:
        shutil.rmtree(os.path.dirname(dest), ignore_errors=True)


def measure(root, tmpl, scenario):
    """Number of traced line events on the path of a scenario (n=0 run)."""
    mode, pre = SCENARIOS[scenario]
    dest = os.path.join(root, "m-%s" % scenario, "job")
    shutil.rmtree(os.path.dirname(dest), ignore_errors=True)
    os.makedirs(os.path.dirname(dest))
    info = clone_case(tmpl, dest)
    for m in pre:
        with open(info[m], "w") as f:
            f.write("1" if m == "failed" else "")
    sitefile = os.path.join(os.path.dirname(dest), "site")
    launch(info, 0, "KILL", sitefile)
    with open(sitefile) as f:
        txt = f.read().strip()
    shutil.rmtree(os.path.dirname(dest), ignore_errors=True)
    assert txt.startswith("count:"), txt
    return int(txt.split(":")[1])


def run_check(tier, base_seed, args):
    from . import main as M
    from .evidence import write_evidence

    t0 = time.time()
    root = scratch_root()
    shutil.rmtree(root, ignore_errors=True)
    os.makedirs(root)
    rc = 0
    try:
        tmpls = {}
        for mode in sorted({m for m, _ in SCENARIOS.values()} | {"gate"}):
            tmpls[mode] = prepare_template(root, mode)
        counts = {sc: measure(root, tmpls[SCENARIOS[sc][0]], sc) for sc in SCENARIOS}
        stride = 1 if tier == "thorough" else 4
        sigs = SIGNALS if tier == "thorough" else ["KILL", "TERM"]
        offset = base_seed % stride
        cases = []
        for sc, N in sorted(counts.items()):
            cases.append((sc, "KILL", 0))           # own end
            for s in sigs:
                ns = set(range(1 + offset, N + 1, stride))
                # the exit phase (marker written, exit-time callbacks running) is short: every
                # one of its traced lines is a kill point in the quick tier too
                ns |= set(range(max(1, N - 13), N + 1))
                for n in sorted(ns):
                    cases.append((sc, s, n))
        relaunches = 2 if tier == "thorough" else 1
        results = []
        with ThreadPoolExecutor(max_workers=args.workers or 16) as ex:
            futs = [ex.submit(run_case, root, tmpls[SCENARIOS[sc][0]], sc, s, n, relaunches) for sc, s, n in cases]
            futs += [ex.submit(run_concurrent, root, tmpls["gate"], v) for v in ("wait", "term", "kill")]
            for f in futs:
                results.append(f.result())
            # escalation (TERM/INT inside the body, SIGKILL some lines later, while the handler runs)
            body = sorted({(r["scenario"], r["sig"], r["n"]) for r in results
                           if r.get("sig") in ("TERM", "INT") and r.get("n", 0) > 0 and in_body(r.get("site")) and "done" not in SCENARIOS[r["scenario"]][1]})
            if tier != "thorough":
                body = body[base_seed % 3::3]
            else:
                # every TERM site, every third INT site (the handler is the same function)
                ints = [b for b in body if b[1] == "INT"]
                body = [b for b in body if b[1] != "INT"] + ints[base_seed % 3::3]
            probes = [ex.submit(run_escalate, root, tmpls[SCENARIOS[sc][0]], sc, s, n, 0, 0) for sc, s, n in body]
            futs2 = []
            for (sc, s, n), pf in zip(body, probes):
                pr = pf.result()
                results.append(pr)
                after = pr.get("after") or 0
                step2 = 2 if tier == "thorough" else 3
                for n2 in range(1 + (base_seed % step2), after + 1, step2):
                    futs2.append(ex.submit(run_escalate, root, tmpls[SCENARIOS[sc][0]], sc, s, n, n2, 1))
            for f in futs2:
                results.append(f.result())
        known = M.load_known()
        lines, new_viol, known_hits = [], [], {}
        for res in results:
            for v in res["violations"]:
                e = M.match_known(v, known)
                if e is not None:
                    known_hits.setdefault(e["id"], [e, 0])
                    known_hits[e["id"]][1] += 1
                else:
                    new_viol.append((res, v))
        for eid, (e, n) in sorted(known_hits.items()):
            lines.append("KNOWN-FINDING: property=C10 %s [%s] (class %s, %d cases)" % (e["description"], eid, e["class"], n))
        reported = set()
        os.makedirs(os.path.join(VERIF, "replays"), exist_ok=True)
        for res, v in new_viol:
            key = (v["cls"], json.dumps(v["sig"], sort_keys=True))
            if key in reported or len(reported) >= 4:
                continue
            reported.add(key)
            path = os.path.join(VERIF, "replays", "C10-%s-%s-%d%s.json" % (res["scenario"], res["sig"], res["n"], ("-%d" % res["n2"]) if res.get("n2") is not None else ""))
            with open(path, "w") as f:
                json.dump({"property": "C10", "engine": "R", "scenario": res["scenario"], "sig": res["sig"], "n": res["n"], "n2": res.get("n2"),
                           "relaunches": relaunches, "site": res["site"], "violation": v, "result": res}, f, indent=1)
            lines.append("VIOLATION property=C10 replay=%s" % path)
            lines.append("  class=%s sig=%s" % (v["cls"], json.dumps(v["sig"], sort_keys=True)))
            lines.append("  " + v["detail"])
            rc = 1
        wall = time.time() - t0
        sites = sorted({r["site"] for r in results if r["site"] and not r["site"].startswith("count:")})
        outcomes = sorted({json.dumps([r["scenario"], r["sig"], r["site"], r.get("code"), r.get("obs")], sort_keys=True) for r in results})
        total = {
            "runs": len(results), "shapes": outcomes, "steps": sum(counts.values()), "sim_time": 0.0,
            "counters": {"fault:job-SIG%s-at-line" % s: sum(1 for r in results if r["sig"] == s and r["n"] > 0) for s in sigs},
            "astates": [], "fault_free": sum(1 for r in results if r["n"] == 0), "samples": [
                {k: r.get(k) for k in ("scenario", "sig", "n", "site", "code", "obs", "relaunch")} for r in results[1:4]],
            "statuses": {}, "incidental": {}, "harness": [], "nviol": sum(1 for r in results if r["violations"]), "skipped": 0,
            "nontrivial": len(results),
        }
        total["counters"]["relaunches"] = sum(len(r["relaunch"]) for r in results)
        total["counters"]["fault:job-SIGTERM-in-body-then-SIGKILL-at-line"] = sum(1 for r in results if r.get("n2"))
        if not args.no_evidence:
            write_evidence(
                "C10", tier, base_seed, total, wall, len(new_viol), "fault_enumeration",
                {"real": ["generated job script (scriptbuilder.PythonScriptBuilder via prepare() in GENERATE_ONLY mode)", "experimaestro.run.TaskRunner/run in a real OS process",
                          "real signals, real fcntl lock (fasteners), real files", "task body (sim/rtasks.py RTask)"],
                 "stub": ["scheduler side of CommandLineJob.aio_run (Popen + atomic pid file write) is played by the harness", "notification reporter is idle (no server)"]},
                known_hits={k: v[1] for k, v in known_hits.items()},
                rule="cases = scenario x signal x n (plus, for signals handled inside the body, x n2: SIGKILL n2 traced lines later), n enumerating the traced line events (sys.settrace on experimaestro/run.py and the task body) of the scenario's path as the instant of the signal, each followed by relaunches of the same script; "
                     "distinct = distinct (scenario, signal, crash site, exit status, observed markers/log/lock) tuples; every case kills a real process, so all are non-trivial",
                extra={"scenarios": counts, "signals": sigs, "stride": stride, "crash_sites": len(sites), "relaunches_per_case": relaunches,
                       "process_runs": len(results) * (1 + relaunches)},
                exhaustive=(stride == 1))
        for l in lines:
            print(l)
        print("C10 tier=%s cases=%d (scenarios %s, signals %s, stride %d) distinct_outcomes=%d violating=%d known=%d wall=%.1fs -> exit %d"
              % (tier, len(results), counts, sigs, stride, len(outcomes), total["nviol"], sum(v[1] for v in known_hits.values()), wall, rc))
        return rc
    finally:
        shutil.rmtree(root, ignore_errors=True)


def replay(rep):
    root = scratch_root()
    shutil.rmtree(root, ignore_errors=True)
    os.makedirs(root)
    try:
        if rep["scenario"].startswith("concurrent-"):
            res = run_concurrent(root, prepare_template(root, "gate"), rep["scenario"].split("-", 1)[1])
        else:
            mode = SCENARIOS[rep["scenario"]][0]
            tmpl = prepare_template(root, mode)
            if rep.get("n2") is not None:
                res = run_escalate(root, tmpl, rep["scenario"], rep["sig"].split("+")[0], rep["n"], rep["n2"], 1)
            else:
                res = run_case(root, tmpl, rep["scenario"], rep["sig"], rep["n"], rep.get("relaunches", 1))
        print(json.dumps({k: res.get(k) for k in ("scenario", "sig", "n", "site", "code", "obs", "relaunch")}, indent=1))
        if res["site"] != rep["site"]:
            print("REPLAY-MISMATCH: crash site %s != %s" % (res["site"], rep["site"]))
            return 2
        v = rep["violation"]
        for w in res["violations"]:
            if w["cls"] == v["cls"] and w["sig"] == v["sig"]:
                print("REPLAY-OK site=%s" % res["site"])
                print("VIOLATION property=C10 replay=(this file)")
                print("  class=%s sig=%s" % (w["cls"], json.dumps(w["sig"], sort_keys=True)))
                print("  " + w["detail"])
                return 1
        print("REPLAY-MISMATCH: violation not reproduced; got", json.dumps(res["violations"])[:600])
        return 2
    finally:
        shutil.rmtree(root, ignore_errors=True)
