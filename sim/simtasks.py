"""Task family used by the scheduler simulator (engine S).

Every way of embedding an upstream task that property C04 names has a slot:
direct parameter, list element, dict value, field of a nested configuration,
task output wrapper, pre-task, init task; explicit dependencies are added by
the plan interpreter with add_dependencies().
"""
from typing import Any, Callable, Dict, List, Optional

from experimaestro import Config, Param, Task, LightweightTask


class T(Task):
    """Base of all simulated tasks: x is the task index of the workload."""

    x: Param[int]

    def execute(self):
        from sim import world

        world.body(self)


class Leaf(T):
    pass


class Holder(Config):
    inner: Param[T]


class Wrap(Config):
    """What WTask.submit() returns (task-output wrapper)."""

    src: Param[T]


class WTask(T):
    def task_outputs(self, dep: Callable[[Config], None]) -> Any:
        return dep(Wrap(src=self))


class Pre(LightweightTask):
    src: Param[Config]

    def execute(self):
        from sim import world

        world.light(self)


class Node(T):
    direct: Param[Optional[T]] = None
    lst: Param[List[T]] = []
    dmap: Param[Dict[str, T]] = {}
    holder: Param[Optional[Holder]] = None
    wrapped: Param[List[Wrap]] = []


class WNode(Node):
    """A Node that itself returns a wrapper."""

    def task_outputs(self, dep: Callable[[Config], None]) -> Any:
        return dep(Wrap(src=self))


# ---- classes for the deprecation scenarios (C20): the Old* classes are *not*
# deprecated at import time; the simulation deprecates them between the run that
# produced job directories and the repair (as the repository's tests do).


class NewCfg(Config):
    v: Param[int]


class OldCfg(NewCfg):
    __xpmid__ = "sim.simtasks.oldcfg"


class CfgHolder(Config):
    c: Param[NewCfg]


class DLeaf(T):
    pass


class OldDLeaf(DLeaf):
    __xpmid__ = "sim.simtasks.olddleaf"


class CfgTask(T):
    p: Param[Optional[NewCfg]] = None
    pl: Param[List[NewCfg]] = []
    ph: Param[Optional[CfgHolder]] = None


DEPRECATABLE = [OldCfg, OldDLeaf]


class Plain(Config):
    """A plain configuration (donor of pre-tasks in the C14 mutation attempts)."""

    v: Param[int]


class PTask(T):
    """A task whose output is one of its own parameters (marked as produced by the task)."""

    m: Param[Plain]

    def task_outputs(self, dep: Callable[[Config], None]) -> Any:
        return dep(self.m)
