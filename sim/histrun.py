"""Executes graph specs under operation histories (engine H).  Imported in the
check's workers and run as a script in fresh interpreters (canonical histories).

spec = {"n": [ {i,s,f,e,a,b,lst,dct} ... ],       plain nodes (edges are indices into n)
        "t": [ {cls: HT|HTW, i, a, pre: [ {i,a} ], init: [ {i,a} ]} ... ],
        "u": [ {i, t, w, a, ts} ... ]}             t/ts index HT tasks, w indexes HTW tasks
history = list of operations, see run_history().
"""
import json
import sys


def _classes():
    from sim import histclasses as H

    return H


def scalar_kwargs(H, nd, order):
    kw = {}
    for k in order:
        if k == "i":
            kw["i"] = nd["i"]
        elif k == "s" and nd.get("s") is not None:
            kw["s"] = nd["s"]
        elif k == "f" and nd.get("f") is not None:
            kw["f"] = nd["f"]
        elif k == "e" and nd.get("e") is not None:
            kw["e"] = H.Color[nd["e"]]
    return kw


class Graph:
    def __init__(self, spec):
        self.spec = spec
        self.H = _classes()
        self.n = [None] * len(spec["n"])
        self.t = [None] * len(spec["t"])
        self.tout = [None] * len(spec["t"])
        self.u = [None] * len(spec["u"])

    # ---- construction steps
    def create_n(self, k, order=("i", "s", "f", "e"), route="ctor"):
        """route: "ctor" (constructor keywords), "coerce" (numerically equal values of the other
        number type: the documented coercions int<->float), "copy" (copyconfig of a node that
        differs in every given scalar, overridden with the - coerced - target values)"""
        H = self.H
        kw = scalar_kwargs(H, self.spec["n"][k], order)
        if route == "ctor":
            self.n[k] = H.N(**kw)
            return
        co = dict(kw)
        co["i"] = float(co["i"])
        if "f" in co and float(co["f"]).is_integer():
            co["f"] = int(co["f"])
        if route == "coerce":
            self.n[k] = H.N(**co)
            return
        from experimaestro import copyconfig

        base = {"i": kw["i"] + 11}
        if "s" in kw:
            base["s"] = kw["s"] + "-base"
        if "f" in kw:
            base["f"] = kw["f"] + 7.25
        if "e" in kw:
            base["e"] = H.Color.GREEN if kw["e"] is not H.Color.GREEN else H.Color.BLUE
        self.n[k] = copyconfig(H.N(**base), **co)

    def wire_n(self, k, field, dorder=None):
        nd = self.spec["n"][k]
        o = self.n[k]
        if field in ("a", "b"):
            if nd.get(field) is not None:
                setattr(o, field, self.n[nd[field]])
        elif field == "lst":
            if nd.get("lst"):
                o.lst = [self.n[j] for j in nd["lst"]]
        elif field == "dct":
            if nd.get("dct"):
                keys = list(dorder) if dorder else list(nd["dct"])
                o.dct = {key: self.n[nd["dct"][key]] for key in keys}

    def create_t(self, k, kw_first="i"):
        td = self.spec["t"][k]
        cls = getattr(self.H, td["cls"])
        kw = {"i": td["i"]}
        if td.get("a") is not None:
            kw["a"] = self.n[td["a"]]
        if kw_first != "i":
            kw = dict(reversed(list(kw.items())))
        task = cls(**kw)
        pres = [self.H.HPre(i=p["i"], **({"a": self.n[p["a"]]} if p.get("a") is not None else {})) for p in td.get("pre", [])]
        if pres:
            task.add_pretasks(*pres)
        self.t[k] = task

    def submit_t(self, k):
        from experimaestro import RunMode

        td = self.spec["t"][k]
        inits = [self.H.HPre(i=p["i"], **({"a": self.n[p["a"]]} if p.get("a") is not None else {})) for p in td.get("init", [])]
        if inits:
            self.tout[k] = self.t[k].submit(run_mode=RunMode.DRY_RUN, init_tasks=inits)
        else:
            self.tout[k] = self.t[k].submit(run_mode=RunMode.DRY_RUN)

    def create_u(self, k):
        ud = self.spec["u"][k]
        kw = {"i": ud["i"]}
        if ud.get("t") is not None:
            kw["t"] = self.tout[ud["t"]]
        if ud.get("w") is not None:
            kw["w"] = self.tout[ud["w"]]
        if ud.get("a") is not None:
            kw["a"] = self.n[ud["a"]]
        if ud.get("ts"):
            kw["ts"] = [self.tout[j] for j in ud["ts"]]
        self.u[k] = self.H.U(**kw)

    def node(self, ref):
        kind, k = ref
        return {"n": self.n, "t": self.t, "u": self.u}[kind][k]

    def ident(self, ref):
        o = self.node(ref)
        return o.__xpm__.identifier.all.hex()

    def seal(self, ref):
        from experimaestro.core.objects import ConfigWalkContext

        self.node(ref).__xpm__.seal(ConfigWalkContext())

    def refs(self):
        return [("n", k) for k in range(len(self.n))] + [("t", k) for k in range(len(self.t))] + [("u", k) for k in range(len(self.u))]


def build_canonical(spec):
    g = Graph(spec)
    for k in range(len(spec["n"])):
        g.create_n(k)
    for k in range(len(spec["n"])):
        for f in ("a", "b", "lst", "dct"):
            g.wire_n(k, f)
    for k in range(len(spec["t"])):
        g.create_t(k)
        g.submit_t(k)
    for k in range(len(spec["u"])):
        g.create_u(k)
    return g


def canonical_ids(spec):
    """Identifier of every node, each computed on a freshly built graph where it is
    the only identifier ever requested."""
    out = {}
    for ref in build_canonical(spec).refs():
        g = build_canonical(spec)
        out["%s%d" % tuple(ref)] = g.ident(ref)
    return out


def run_history(spec, hist):
    """hist: list of ops
       ["n", k, order, route]     create plain node k with scalar kwargs in `order` (route: ctor|coerce|copy)
       ["w", k, field, dorder]    wire edge field of node k
       ["t", k, first]            create task k (kwargs order)
       ["s", k]                   dry-run submit task k
       ["u", k]                   create upper node k
       ["id", kind, k]            request the identifier (recorded once everything is built)
       ["seal", kind, k]          seal
    returns {"final": {node: [ids requested after construction completed]}, "error": str|None}
    """
    g = Graph(spec)
    total = len(spec["n"]) * 5 + len(spec["t"]) * 2 + len(spec["u"])
    done = 0
    final = {}
    try:
        for op in hist:
            c = op[0]
            if c == "n":
                g.create_n(op[1], op[2], op[3] if len(op) > 3 else "ctor")
                done += 1
            elif c == "w":
                g.wire_n(op[1], op[2], op[3] if len(op) > 3 else None)
                done += 1
            elif c == "t":
                g.create_t(op[1], op[2])
                done += 1
            elif c == "s":
                g.submit_t(op[1])
                done += 1
            elif c == "u":
                g.create_u(op[1])
                done += 1
            elif c == "id":
                ref = (op[1], op[2])
                if g.node(ref) is None:
                    continue
                v = g.ident(ref)
                if done >= total:
                    final.setdefault("%s%d" % ref, []).append(v)
            elif c == "seal":
                ref = (op[1], op[2])
                if g.node(ref) is not None and done >= total:
                    g.seal(ref)
        return {"final": final, "error": None}
    except Exception as e:
        import traceback

        return {"final": final, "error": "%s: %s | %s" % (type(e).__name__, e, traceback.format_exc()[-600:])}


def main():
    """Child interpreter: one JSON request per line -> one JSON answer per line."""
    import os

    sys.path.insert(0, os.path.dirname(os.path.dirname(os.path.abspath(__file__))))
    for line in sys.stdin:
        line = line.strip()
        if not line:
            continue
        req = json.loads(line)
        try:
            if req["op"] == "canonical":
                ans = {"ids": canonical_ids(req["spec"])}
            else:
                ans = run_history(req["spec"], req["hist"])
        except Exception as e:
            ans = {"error": "%s: %s" % (type(e).__name__, e)}
        sys.stdout.write(json.dumps(ans) + "\n")
        sys.stdout.flush()


if __name__ == "__main__":
    main()
