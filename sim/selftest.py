"""Self-tests of the machinery.

determinism: N run seeds per property, each executed twice in separate forked
children (at worker counts 1 and 16) and once more in a freshly exec'd
interpreter with another PYTHONHASHSEED; the event-log digests must agree.
"""
import json
import os
import subprocess
import sys
import time
from concurrent.futures import ThreadPoolExecutor

from . import main as M

VERIF = M.VERIF
PROPS = M.S_PROPS


def digest_of(prop, seed):
    res = M.in_child(lambda: M.execute_run(prop, seed))
    if "harness" in res:
        return "HARNESS:" + res["harness"]
    return "%s/%d/%s" % (res["digest"], res["steps"], res["status"])


def fresh_digests(prop, seeds, hashseed):
    code = (
        "import sys, json; sys.path.insert(0, %r)\n"
        "from sim import selftest\n"
        "print(json.dumps([selftest.digest_of(%r, s) for s in %r]))\n" % (VERIF, prop, list(seeds))
    )
    env = dict(os.environ, PYTHONHASHSEED=str(hashseed), PYTEST_CURRENT_TEST="verif-sim")
    p = subprocess.run(["/venv/bin/python", "-W", "ignore", "-c", code], capture_output=True, text=True, env=env, timeout=1200)
    if p.returncode != 0:
        return ["ERR:" + p.stderr[-300:]] * len(seeds)
    return json.loads(p.stdout.strip().splitlines()[-1])


def main(args):
    if args.what != "determinism":
        print("unknown selftest", args.what)
        return 2
    t0 = time.time()
    props = args.props.split(",") if args.props else PROPS
    n = args.n
    bad = 0
    total = 0
    for prop in props:
        seeds = [M.seed_for(77, prop, i) for i in range(n)]
        # (a) sequentially in this process' children (worker count 1)
        a = [digest_of(prop, s) if i < max(8, n // 4) else None for i, s in enumerate(seeds)]
        # (b) 16 concurrent forked children (machine under load)
        with ThreadPoolExecutor(max_workers=16) as ex:
            b = list(ex.map(lambda s: digest_of(prop, s), seeds))
        # (c) fresh interpreters with other hash seeds, run concurrently
        chunks = [seeds[i::4] for i in range(4)]
        with ThreadPoolExecutor(max_workers=4) as ex:
            cs = list(ex.map(lambda t: fresh_digests(prop, t[1], 1000 + 37 * t[0]), enumerate(chunks)))
        c = {}
        for chunk, ds in zip(chunks, cs):
            c.update(dict(zip(chunk, ds)))
        diffs = [s for s, x, y in zip(seeds, a, b) if not ((x is None or x == y) and y == c[s])]
        total += len(seeds)
        bad += len(diffs)
        print("%s: %d seeds x 3 executions (sequential children, 16 concurrent children, fresh interpreter with another PYTHONHASHSEED): %d differ%s"
              % (prop, len(seeds), len(diffs), (" e.g. seed %d: %s | %s | %s" % (diffs[0], a[seeds.index(diffs[0])], b[seeds.index(diffs[0])], c[diffs[0]])) if diffs else ""))
    print("determinism: %d/%d seeds identical, wall %.1fs" % (total - bad, total, time.time() - t0))
    return 0 if bad == 0 else 2
