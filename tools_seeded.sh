#!/bin/bash
# Maintenance tool (not a registered check): confirm and evaluate a seeded defect.
#   tools_seeded.sh verify <candidate dir with patch.diff + demo>   -> suite passes with it, demo fails with / passes without
#   tools_seeded.sh eval <seeded dir> <ID> [<ID> ...]               -> apply to /repo, run the quick checks (no evidence), undo
set -u
cmd=$1; dir=$2; shift 2
case $cmd in
verify)
  wt=/tmp/mut/verify_$$
  git -C /repo worktree add -q --detach $wt HEAD || exit 2
  trap "git -C /repo worktree remove --force $wt" EXIT
  cd $wt && git apply $dir/patch.diff || { echo "PATCH-DOES-NOT-APPLY"; exit 2; }
  demo=$(ls $dir/demo.py $dir/test_demo.py 2>/dev/null | head -1)
  echo "== demo WITH change"; PYTHONPATH=$wt/src timeout 300 /venv/bin/python $demo > $dir/verify_demo_with.log 2>&1; echo "exit=$?"
  echo "== suite WITH change"; PYTHONPATH=$wt/src timeout 1500 /venv/bin/python -m pytest -ra -q -p no:cacheprovider --timeout=900 --continue-on-collection-errors > $dir/verify_suite.log 2>&1; tail -1 $dir/verify_suite.log; grep -E "^FAILED|^ERROR" $dir/verify_suite.log | head
  git checkout -q -- . 
  echo "== demo WITHOUT change"; PYTHONPATH=$wt/src timeout 300 /venv/bin/python $demo > $dir/verify_demo_without.log 2>&1; echo "exit=$?"
  ;;
eval)
  cd /verif
  test -z "$(git -C /repo status --porcelain)" || { echo "/repo not clean"; exit 2; }
  git -C /repo apply $dir/patch.diff || { echo "PATCH-DOES-NOT-APPLY"; exit 2; }
  trap "git -C /repo checkout -q -- ." EXIT
  for id in "$@"; do
    out=$(./check run $id --tier quick --no-evidence 2>&1); rc=$?
    echo "$id exit=$rc :: $(echo "$out" | grep -E 'VIOLATION|class=' | head -4 | tr '\n' ' ' | cut -c1-500)"
  done
  ;;
esac
